#!/bin/bash
# usage: nsrun.sh <slot> <command...>
# Runs <command> in a private mount namespace in which /repo and /verif are bind mounts of per-slot copies
# (/var/tmp/ns/<slot>/{repo,verif}), so that several seeded changes can be tried in parallel without
# touching the real /repo or /verif. The copies keep mtimes, so cargo does not rebuild unchanged crates.
# NSRUN_REFRESH=1 re-synchronises the copies from /repo and /verif first (always done when they are missing).
set -u
SLOT=$1; shift
S=/var/tmp/ns/$SLOT
if [ ! -d $S/repo ] || [ ! -d $S/verif ] || [ "${NSRUN_REFRESH:-0}" = 1 ]; then
  mkdir -p $S/repo $S/verif
  rsync -a --delete --exclude /target /repo/ $S/repo/ || exit 2
  rsync -a --delete --exclude /.git --exclude /target/fuzz --exclude /replays --exclude /seeded /verif/ $S/verif/ || exit 2
  git -C $S/repo checkout -q -- . 2>/dev/null
fi
exec unshare -m bash -c 'mount --bind "$0/repo" /repo && mount --bind "$0/verif" /verif && cd /verif && exec "$@"' "$S" "$@"
