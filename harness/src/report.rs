//! Harness-side readers for the four report formats, independent of fclones' own readers.
//! They implement what the *writer* is documented to emit.

use crate::util::*;
use serde_json::Value;

#[derive(Clone, Debug, PartialEq, Eq)]
pub struct RGroup {
    pub len: u64,
    pub hash: String,
    /// count printed in the group header (text, csv)
    pub count: Option<usize>,
    pub files: Vec<Vec<u8>>,
}

#[derive(Clone, Debug, PartialEq, Eq, Default)]
pub struct RStats {
    pub group_count: u64,
    pub total_file_count: u64,
    pub total_file_size: u64,
    pub redundant_file_count: u64,
    pub redundant_file_size: u64,
    pub missing_file_count: u64,
    pub missing_file_size: u64,
}

#[derive(Clone, Debug, Default)]
pub struct RHeader {
    pub version: String,
    pub timestamp: String,
    /// JSON: decoded arguments; text: None (see command_line)
    pub command: Option<Vec<Vec<u8>>>,
    pub command_line: Option<String>,
    pub base_dir: Vec<u8>,
    pub stats: Option<RStats>,
}

#[derive(Clone, Debug, Default)]
pub struct Report {
    pub header: Option<RHeader>,
    pub groups: Vec<RGroup>,
}

impl Report {
    pub fn path_sets(&self) -> Vec<(u64, Vec<Vec<u8>>)> {
        let mut v: Vec<(u64, Vec<Vec<u8>>)> = self
            .groups
            .iter()
            .map(|g| {
                let mut f = g.files.clone();
                f.sort();
                (g.len, f)
            })
            .collect();
        v.sort();
        v
    }
}

pub fn parse_json(bytes: &[u8]) -> Result<Report, String> {
    let v: Value = serde_json::from_slice(bytes).map_err(|e| format!("json: {}", e))?;
    let h = v.get("header").ok_or("no header")?;
    let st = h.get("stats");
    let u = |o: Option<&Value>, k: &str| o.and_then(|s| s.get(k)).and_then(|x| x.as_u64()).unwrap_or(0);
    let stats = st.filter(|s| !s.is_null()).map(|_| RStats {
        group_count: u(st, "group_count"),
        total_file_count: u(st, "total_file_count"),
        total_file_size: u(st, "total_file_size"),
        redundant_file_count: u(st, "redundant_file_count"),
        redundant_file_size: u(st, "redundant_file_size"),
        missing_file_count: u(st, "missing_file_count"),
        missing_file_size: u(st, "missing_file_size"),
    });
    let mut command = vec![];
    for a in h.get("command").and_then(|c| c.as_array()).ok_or("no command")? {
        command.push(unesc(a.as_str().ok_or("command arg not a string")?)?);
    }
    let header = RHeader {
        version: h.get("version").and_then(|x| x.as_str()).unwrap_or("").to_string(),
        timestamp: h.get("timestamp").and_then(|x| x.as_str()).unwrap_or("").to_string(),
        command: Some(command),
        command_line: None,
        base_dir: unesc(h.get("base_dir").and_then(|x| x.as_str()).ok_or("no base_dir")?)?,
        stats,
    };
    let mut groups = vec![];
    for g in v.get("groups").and_then(|g| g.as_array()).ok_or("no groups")? {
        let mut files = vec![];
        for f in g.get("files").and_then(|f| f.as_array()).ok_or("no files")? {
            files.push(unesc(f.as_str().ok_or("file not a string")?)?);
        }
        groups.push(RGroup {
            len: g.get("file_len").and_then(|x| x.as_u64()).ok_or("no file_len")?,
            hash: g.get("file_hash").and_then(|x| x.as_str()).ok_or("no file_hash")?.to_string(),
            count: None,
            files,
        });
    }
    Ok(Report { header: Some(header), groups })
}

fn parse_count_line(line: &str, prefix: &str) -> Option<Vec<u64>> {
    // "# Total: 140000 B (140.0 KB) in 2 files in 1 groups"
    let rest = line.strip_prefix(prefix)?;
    let mut nums = vec![];
    let first = rest.split(' ').next()?.parse::<u64>().ok()?;
    nums.push(first);
    let after = rest.split(") in ").nth(1)?;
    for tok in after.split(' ') {
        if let Ok(n) = tok.parse::<u64>() {
            nums.push(n);
        }
    }
    Some(nums)
}

pub fn parse_text(bytes: &[u8]) -> Result<Report, String> {
    let text = std::str::from_utf8(bytes).map_err(|e| format!("text report is not UTF-8: {}", e))?;
    let mut lines = text.split('\n').peekable();
    let mut header = RHeader::default();
    let mut stats = RStats::default();
    let mut have_stats = false;
    while let Some(l) = lines.peek() {
        if !l.starts_with('#') {
            break;
        }
        let l = lines.next().unwrap();
        if let Some(v) = l.strip_prefix("# Report by fclones ") {
            header.version = v.to_string();
        } else if let Some(v) = l.strip_prefix("# Timestamp: ") {
            header.timestamp = v.to_string();
        } else if let Some(v) = l.strip_prefix("# Command: ") {
            header.command_line = Some(v.to_string());
        } else if let Some(v) = l.strip_prefix("# Base dir: ") {
            header.base_dir = unesc(v)?;
        } else if let Some(n) = parse_count_line(l, "# Total: ") {
            if n.len() >= 3 {
                stats.total_file_size = n[0];
                stats.total_file_count = n[1];
                stats.group_count = n[2];
                have_stats = true;
            }
        } else if let Some(n) = parse_count_line(l, "# Redundant: ") {
            if n.len() >= 2 {
                stats.redundant_file_size = n[0];
                stats.redundant_file_count = n[1];
            }
        } else if let Some(n) = parse_count_line(l, "# Missing: ") {
            if n.len() >= 2 {
                stats.missing_file_size = n[0];
                stats.missing_file_count = n[1];
            }
        }
    }
    if have_stats {
        header.stats = Some(stats);
    }
    let mut groups: Vec<RGroup> = vec![];
    for l in lines {
        if l.is_empty() {
            continue;
        }
        if let Some(p) = l.strip_prefix("    ") {
            let g = groups.last_mut().ok_or("path line before any group header")?;
            g.files.push(unesc(p)?);
        } else {
            // "<hash>, <len> B (<human>) * <count>:"
            let (hash, rest) = l.split_once(", ").ok_or_else(|| format!("bad group header {:?}", l))?;
            let len: u64 = rest.split(' ').next().unwrap_or("").parse().map_err(|_| format!("bad len in {:?}", l))?;
            let count: usize = rest
                .rsplit_once("* ")
                .and_then(|(_, c)| c.strip_suffix(':'))
                .and_then(|c| c.parse().ok())
                .ok_or_else(|| format!("bad count in {:?}", l))?;
            groups.push(RGroup { len, hash: hash.to_string(), count: Some(count), files: vec![] });
        }
    }
    Ok(Report { header: Some(header), groups })
}

/// Minimal RFC 4180 reader.
pub fn parse_csv_records(bytes: &[u8]) -> Result<Vec<Vec<String>>, String> {
    let text = std::str::from_utf8(bytes).map_err(|e| e.to_string())?;
    let mut recs = vec![];
    let mut rec: Vec<String> = vec![];
    let mut field = String::new();
    let mut chars = text.chars().peekable();
    let mut in_q = false;
    let mut any = false;
    while let Some(c) = chars.next() {
        any = true;
        if in_q {
            if c == '"' {
                if chars.peek() == Some(&'"') {
                    field.push('"');
                    chars.next();
                } else {
                    in_q = false;
                }
            } else {
                field.push(c);
            }
        } else {
            match c {
                '"' => in_q = true,
                ',' => rec.push(std::mem::take(&mut field)),
                '\r' => {}
                '\n' => {
                    rec.push(std::mem::take(&mut field));
                    recs.push(std::mem::take(&mut rec));
                    any = false;
                }
                c => field.push(c),
            }
        }
    }
    if in_q {
        return Err("unterminated quoted field".into());
    }
    if any && (!field.is_empty() || !rec.is_empty()) {
        rec.push(field);
        recs.push(rec);
    }
    Ok(recs)
}

pub fn parse_csv(bytes: &[u8]) -> Result<Vec<RGroup>, String> {
    let recs = parse_csv_records(bytes)?;
    let mut groups = vec![];
    for (i, r) in recs.iter().enumerate() {
        if i == 0 {
            if r.first().map(|s| s.as_str()) != Some("size") {
                return Err(format!("csv header row missing: {:?}", r));
            }
            continue;
        }
        if r.len() < 3 {
            return Err(format!("short csv record {:?}", r));
        }
        let mut files = vec![];
        for f in &r[3..] {
            files.push(unesc(f)?);
        }
        groups.push(RGroup {
            len: r[0].parse().map_err(|_| format!("bad size {:?}", r[0]))?,
            hash: r[1].clone(),
            count: Some(r[2].parse().map_err(|_| format!("bad count {:?}", r[2]))?),
            files,
        });
    }
    Ok(groups)
}

pub fn parse_fdupes(bytes: &[u8]) -> Result<Vec<Vec<Vec<u8>>>, String> {
    let text = std::str::from_utf8(bytes).map_err(|e| e.to_string())?;
    let mut groups = vec![];
    let mut cur: Vec<Vec<u8>> = vec![];
    for l in text.split('\n') {
        if l.is_empty() {
            if !cur.is_empty() {
                groups.push(std::mem::take(&mut cur));
            }
        } else {
            cur.push(unesc(l)?);
        }
    }
    if !cur.is_empty() {
        groups.push(cur);
    }
    Ok(groups)
}

/// The part of a text report after the header lines.
pub fn text_body(bytes: &[u8]) -> Vec<u8> {
    let mut out = vec![];
    for l in bytes.split_inclusive(|b| *b == b'\n') {
        if l.starts_with(b"# Timestamp:") || l.starts_with(b"# Command:") || l.starts_with(b"# Report by") {
            continue;
        }
        out.extend_from_slice(l);
    }
    out
}
