//! Scratch directories and the child-process runner (fclones binary with a private environment).

use crate::util::*;
use std::ffi::{OsStr, OsString};
use std::io::{Read, Write};
use std::path::{Path, PathBuf};
use std::process::{Command, Stdio};
use std::time::{Duration, Instant};

pub const FCLONES_BIN: &str = "/verif/target/fclones/release/fclones";
pub const HELPERS_DIR: &str = "/verif/target/helpers";
pub const SHIM: &str = "/verif/target/fcv_shim.so";

#[derive(Clone, Copy, Debug, PartialEq, Eq)]
pub enum Fs {
    Tmpfs,
    Ext4,
}

/// A per-case scratch directory; removed on drop.
pub struct CaseDir {
    pub base: PathBuf,
}

impl CaseDir {
    pub fn new(prop: &str, n: u64, fs: Fs) -> CaseDir {
        let top = match fs {
            Fs::Tmpfs => "/dev/shm/fcvw",
            Fs::Ext4 => "/var/tmp/fcvw",
        };
        let base = PathBuf::from(format!("{}/p{}/{}n{}", top, std::process::id(), prop.to_lowercase(), n));
        let _ = std::fs::remove_dir_all(&base);
        std::fs::create_dir_all(&base).expect("create scratch dir");
        for d in ["t", "home", "tmp", "out", "cache", "config"] {
            std::fs::create_dir_all(base.join(d)).unwrap();
        }
        CaseDir { base }
    }
    /// root of the generated tree
    pub fn tree(&self) -> PathBuf {
        self.base.join("t")
    }
    pub fn out(&self) -> PathBuf {
        self.base.join("out")
    }
    pub fn tmp(&self) -> PathBuf {
        self.base.join("tmp")
    }
    /// Removes and recreates the tree directory (for checks that rebuild the tree many times)
    pub fn reset_tree(&self) {
        let _ = std::fs::remove_dir_all(self.tree());
        std::fs::create_dir_all(self.tree()).unwrap();
    }
    pub fn reset_cache(&self) {
        let _ = std::fs::remove_dir_all(self.base.join("cache"));
        std::fs::create_dir_all(self.base.join("cache")).unwrap();
    }
}

impl Drop for CaseDir {
    fn drop(&mut self) {
        if std::env::var_os("FCV_KEEP").is_none() {
            let _ = std::fs::remove_dir_all(&self.base);
        }
    }
}

static SECOND_MOUNT: std::sync::OnceLock<Option<PathBuf>> = std::sync::OnceLock::new();

/// A second real block device: a 48 MiB ext4 image loop-mounted below /var/tmp (needs root and
/// loop devices; None when that is not possible). fclones' disk detection lists it as a separate
/// device and mount point, unlike tmpfs.
pub fn second_mount() -> Option<PathBuf> {
    SECOND_MOUNT
        .get_or_init(|| {
            let base = PathBuf::from(format!("/var/tmp/fcvw/p{}", std::process::id()));
            std::fs::create_dir_all(&base).ok()?;
            let img = base.join("loop.img");
            let mnt = base.join("loopmnt");
            std::fs::create_dir_all(&mnt).ok()?;
            let f = std::fs::File::create(&img).ok()?;
            f.set_len(48 * 1024 * 1024).ok()?;
            drop(f);
            let ok = |c: &mut Command| c.stdout(Stdio::null()).stderr(Stdio::null()).status().map(|s| s.success()).unwrap_or(false);
            if !ok(Command::new("mkfs.ext4").arg("-q").arg("-F").arg(&img)) {
                return None;
            }
            if !ok(Command::new("mount").arg("-o").arg("loop").arg(&img).arg(&mnt)) {
                return None;
            }
            Some(mnt)
        })
        .clone()
}

/// Two freshly mounted tmpfs file systems (files created in them in the same order get equal inode
/// numbers on different devices); unmounted when the guard is dropped. Empty when mounting fails.
pub struct TwinMounts(pub Vec<PathBuf>);
impl Drop for TwinMounts {
    fn drop(&mut self) {
        for m in &self.0 {
            let _ = Command::new("umount").arg("-l").arg(m).stdout(Stdio::null()).stderr(Stdio::null()).status();
        }
    }
}
pub fn mount_twins(a: &Path, b: &Path) -> TwinMounts {
    let mut v = vec![];
    for m in [a, b] {
        let _ = std::fs::create_dir_all(m);
        let ok = Command::new("mount").args(["-t", "tmpfs", "-o", "size=16m", "tmpfs"]).arg(m).stdout(Stdio::null()).stderr(Stdio::null()).status().map(|s| s.success()).unwrap_or(false);
        if ok {
            v.push(m.to_path_buf());
        }
    }
    if v.len() != 2 {
        let g = TwinMounts(v);
        drop(g);
        return TwinMounts(vec![]);
    }
    TwinMounts(v)
}

static SSD_MOUNT: std::sync::OnceLock<Option<PathBuf>> = std::sync::OnceLock::new();

/// A block device of the other kind: a 32 MiB ext4 image that lives on tmpfs (/dev/shm), loop-mounted
/// below /var/tmp. Its loop device reports rotational=0, so fclones classifies it as SSD, while the
/// root disk of the sandbox (and loop devices backed by it) report rotational=1. None when loop
/// devices or mounting are not available.
pub fn ssd_mount() -> Option<PathBuf> {
    SSD_MOUNT
        .get_or_init(|| {
            let base = PathBuf::from(format!("/var/tmp/fcvw/p{}", std::process::id()));
            std::fs::create_dir_all(&base).ok()?;
            let img_dir = PathBuf::from(format!("/dev/shm/fcvw/p{}", std::process::id()));
            std::fs::create_dir_all(&img_dir).ok()?;
            let img = img_dir.join("ssd.img");
            let mnt = base.join("ssdmnt");
            std::fs::create_dir_all(&mnt).ok()?;
            let f = std::fs::File::create(&img).ok()?;
            f.set_len(32 * 1024 * 1024).ok()?;
            drop(f);
            let ok = |c: &mut Command| c.stdout(Stdio::null()).stderr(Stdio::null()).status().map(|s| s.success()).unwrap_or(false);
            if !ok(Command::new("mkfs.ext4").arg("-q").arg("-F").arg(&img)) {
                return None;
            }
            if !ok(Command::new("mount").arg("-o").arg("loop").arg(&img).arg(&mnt)) {
                return None;
            }
            Some(mnt)
        })
        .clone()
}

/// Runs `r` under the interposer and blocks it at its k-th relevant call of class `cls` ('R' any
/// read-side call, 'O' open for read, 'M' mutating call) on files below `root`; `at_pause` runs while the
/// child is blocked. Returns the output and whether the pause point was reached (the child runs to
/// completion when it issues fewer than k such calls).
pub fn run_paused(r: &Run, base: &Path, root: &Path, cls: char, k: usize, at_pause: &mut dyn FnMut()) -> (Out, bool) {
    use std::os::unix::ffi::OsStrExt;
    use std::os::unix::fs::OpenOptionsExt;
    use std::os::unix::process::ExitStatusExt;
    let fifo_out = base.join("pause.out");
    let fifo_in = base.join("pause.in");
    let _ = std::fs::remove_file(&fifo_out);
    let _ = std::fs::remove_file(&fifo_in);
    let mk = |p: &Path| {
        let c = std::ffi::CString::new(p.as_os_str().as_bytes()).unwrap();
        unsafe { libc::mkfifo(c.as_ptr(), 0o600) == 0 }
    };
    let start = Instant::now();
    let spawn_failed = |msg: String| Out { code: None, signal: None, stdout: vec![], stderr: msg.into_bytes(), timed_out: true, deadlocked: false, wall: start.elapsed() };
    if !mk(&fifo_out) || !mk(&fifo_in) {
        return (spawn_failed("mkfifo failed".into()), false);
    }
    let mut cmd = Command::new(&r.program);
    cmd.args(&r.args).current_dir(&r.cwd).env_clear();
    for (key, v) in &r.env {
        cmd.env(key, v);
    }
    cmd.env("LD_PRELOAD", SHIM)
        .env("FCV_ROOT", root)
        .env("FCV_PAUSE", format!("{}:{}:{}:{}", cls, k, fifo_out.display(), fifo_in.display()))
        .stdin(Stdio::null())
        .stdout(Stdio::piped())
        .stderr(Stdio::piped());
    let mut child = match cmd.spawn() {
        Ok(ch) => ch,
        Err(e) => return (spawn_failed(e.to_string()), false),
    };
    let mut so = child.stdout.take().unwrap();
    let mut se = child.stderr.take().unwrap();
    let t_out = std::thread::spawn(move || {
        let mut v = vec![];
        let _ = so.read_to_end(&mut v);
        v
    });
    let t_err = std::thread::spawn(move || {
        let mut v = vec![];
        let _ = se.read_to_end(&mut v);
        v
    });
    let mut out_r = std::fs::OpenOptions::new().read(true).write(true).custom_flags(libc::O_NONBLOCK).open(&fifo_out).ok();
    let mut paused = false;
    let mut status = None;
    let mut timed_out = false;
    loop {
        if let Some(f) = out_r.as_mut() {
            let mut b = [0u8; 1];
            if let Ok(1) = f.read(&mut b) {
                paused = true;
                break;
            }
        }
        match child.try_wait() {
            Ok(Some(st)) => {
                status = Some(st);
                break;
            }
            Ok(None) => {}
            Err(_) => break,
        }
        if start.elapsed() > Duration::from_secs(60) {
            timed_out = true;
            let _ = child.kill();
            break;
        }
        std::thread::sleep(Duration::from_millis(1));
    }
    if paused {
        at_pause();
        if let Ok(mut w) = std::fs::OpenOptions::new().read(true).write(true).open(&fifo_in) {
            let _ = w.write_all(b"g");
            let deadline = Instant::now() + Duration::from_secs(60);
            loop {
                match child.try_wait() {
                    Ok(Some(st)) => {
                        status = Some(st);
                        break;
                    }
                    Ok(None) if Instant::now() > deadline => {
                        timed_out = true;
                        let _ = child.kill();
                        break;
                    }
                    Ok(None) => std::thread::sleep(Duration::from_millis(1)),
                    Err(_) => break,
                }
            }
        }
    }
    if status.is_none() {
        status = child.wait().ok();
    }
    let stdout = t_out.join().unwrap_or_default();
    let stderr = t_err.join().unwrap_or_default();
    (Out { code: status.and_then(|s| s.code()), signal: status.and_then(|s| s.signal()), stdout, stderr, timed_out, deadlocked: false, wall: start.elapsed() }, paused)
}

pub fn cleanup_process_scratch() {
    if let Some(Some(m)) = SECOND_MOUNT.get() {
        let _ = Command::new("umount").arg("-l").arg(m).stdout(Stdio::null()).stderr(Stdio::null()).status();
    }
    if let Some(Some(m)) = SSD_MOUNT.get() {
        let _ = Command::new("umount").arg("-l").arg(m).stdout(Stdio::null()).stderr(Stdio::null()).status();
    }
    for top in ["/dev/shm/fcvw", "/var/tmp/fcvw"] {
        let _ = std::fs::remove_dir_all(format!("{}/p{}", top, std::process::id()));
    }
}

#[derive(Debug, Clone)]
pub struct Out {
    pub code: Option<i32>,
    pub signal: Option<i32>,
    pub stdout: Vec<u8>,
    pub stderr: Vec<u8>,
    pub timed_out: bool,
    /// when timed out: whether every thread was asleep with no CPU progress (deadlock)
    pub deadlocked: bool,
    pub wall: Duration,
}

impl Out {
    pub fn ok(&self) -> bool {
        self.code == Some(0)
    }
    pub fn crashed(&self) -> bool {
        self.signal.is_some() && !self.timed_out
    }
    pub fn stderr_s(&self) -> String {
        String::from_utf8_lossy(&self.stderr).to_string()
    }
    pub fn warnings(&self) -> Vec<String> {
        self.stderr_s().lines().filter(|l| l.contains("warn:") || l.contains("error:")).map(|s| s.to_string()).collect()
    }
    pub fn brief(&self) -> String {
        format!(
            "code={:?} signal={:?} timed_out={} stderr=<<{}>>",
            self.code,
            self.signal,
            self.timed_out,
            self.stderr_s().lines().filter(|l| !l.contains(" info: ")).take(12).collect::<Vec<_>>().join(" | ")
        )
    }
}

#[derive(Clone)]
pub struct Run {
    pub program: OsString,
    pub args: Vec<OsString>,
    pub cwd: PathBuf,
    pub stdin: Vec<u8>,
    pub env: Vec<(OsString, OsString)>,
    pub timeout: Duration,
}

impl Run {
    /// fclones with the private environment of the case.
    pub fn fclones(cd: &CaseDir) -> Run {
        let mut r = Run {
            program: OsString::from(FCLONES_BIN),
            args: vec![],
            cwd: cd.tree(),
            stdin: vec![],
            env: vec![],
            timeout: Duration::from_secs(DEFAULT_TIMEOUT_S.load(std::sync::atomic::Ordering::Relaxed)),
        };
        r = r
            .env("HOME", cd.base.join("home"))
            .env("XDG_CACHE_HOME", cd.base.join("cache"))
            .env("XDG_CONFIG_HOME", cd.base.join("config"))
            .env("TMPDIR", cd.tmp())
            .env("PATH", format!("{}:/usr/bin:/bin", HELPERS_DIR))
            .env("LC_ALL", "C.UTF-8")
            .env("TZ", "UTC");
        r
    }
    pub fn program(cd: &CaseDir, prog: &str) -> Run {
        let mut r = Run::fclones(cd);
        r.program = OsString::from(prog);
        r
    }
    pub fn arg(mut self, a: impl AsRef<OsStr>) -> Run {
        self.args.push(a.as_ref().to_os_string());
        self
    }
    pub fn args<I, S>(mut self, it: I) -> Run
    where
        I: IntoIterator<Item = S>,
        S: AsRef<OsStr>,
    {
        for a in it {
            self.args.push(a.as_ref().to_os_string());
        }
        self
    }
    pub fn env(mut self, k: impl AsRef<OsStr>, v: impl AsRef<OsStr>) -> Run {
        self.env.push((k.as_ref().to_os_string(), v.as_ref().to_os_string()));
        self
    }
    pub fn unset_env(mut self, k: &str) -> Run {
        self.env.retain(|(kk, _)| kk != k);
        self
    }
    pub fn cwd(mut self, p: impl AsRef<Path>) -> Run {
        self.cwd = p.as_ref().to_path_buf();
        self
    }
    pub fn stdin(mut self, b: Vec<u8>) -> Run {
        self.stdin = b;
        self
    }
    pub fn timeout(mut self, s: u64) -> Run {
        self.timeout = Duration::from_secs(s);
        self
    }
    pub fn cmdline(&self) -> String {
        let mut s = String::new();
        for a in &self.args {
            s.push(' ');
            s.push_str(&esc(&os_bytes(a)));
        }
        format!("fclones{}", s)
    }

    pub fn run(&self) -> Out {
        let start = Instant::now();
        let mut cmd = Command::new(&self.program);
        cmd.args(&self.args).current_dir(&self.cwd).env_clear();
        for (k, v) in &self.env {
            cmd.env(k, v);
        }
        cmd.stdin(Stdio::piped()).stdout(Stdio::piped()).stderr(Stdio::piped());
        let mut child = match cmd.spawn() {
            Ok(c) => c,
            Err(e) => {
                return Out {
                    code: None,
                    signal: None,
                    stdout: vec![],
                    stderr: format!("spawn failed: {}", e).into_bytes(),
                    timed_out: true,
                    deadlocked: false,
                    wall: start.elapsed(),
                }
            }
        };
        let mut stdin = child.stdin.take().unwrap();
        let input = self.stdin.clone();
        let t_in = std::thread::spawn(move || {
            let _ = stdin.write_all(&input);
        });
        let mut so = child.stdout.take().unwrap();
        let mut se = child.stderr.take().unwrap();
        let t_out = std::thread::spawn(move || {
            let mut v = vec![];
            let _ = so.read_to_end(&mut v);
            v
        });
        let t_err = std::thread::spawn(move || {
            let mut v = vec![];
            let _ = se.read_to_end(&mut v);
            v
        });
        let mut timed_out = false;
        let mut deadlocked = false;
        let status = loop {
            match child.try_wait() {
                Ok(Some(st)) => break Some(st),
                Ok(None) => {
                    let limit = if HANG_SEEN.load(std::sync::atomic::Ordering::Relaxed) {
                        self.timeout.min(Duration::from_secs(4))
                    } else {
                        self.timeout
                    };
                    if start.elapsed() > limit {
                        timed_out = true;
                        deadlocked = quiescent(child.id());
                        let _ = child.kill();
                        break child.wait().ok();
                    }
                    let el = start.elapsed();
                    std::thread::sleep(if el < Duration::from_millis(20) {
                        Duration::from_micros(300)
                    } else if el < Duration::from_millis(500) {
                        Duration::from_millis(2)
                    } else {
                        Duration::from_millis(20)
                    });
                }
                Err(_) => break None,
            }
        };
        let _ = t_in.join();
        let stdout = t_out.join().unwrap_or_default();
        let stderr = t_err.join().unwrap_or_default();
        use std::os::unix::process::ExitStatusExt;
        Out {
            code: status.and_then(|s| s.code()),
            signal: status.and_then(|s| s.signal()),
            stdout,
            stderr,
            timed_out,
            deadlocked,
            wall: start.elapsed(),
        }
    }
}

pub fn os_bytes(s: &OsStr) -> Vec<u8> {
    use std::os::unix::ffi::OsStrExt;
    s.as_bytes().to_vec()
}

/// Set once a run was proven hung; later watchdogs are shortened (the proof stays the same).
/// Default watchdog in seconds for fclones runs (a check may lower it).
pub static DEFAULT_TIMEOUT_S: std::sync::atomic::AtomicU64 = std::sync::atomic::AtomicU64::new(60);

pub static HANG_SEEN: std::sync::atomic::AtomicBool = std::sync::atomic::AtomicBool::new(false);

/// Quiescence detector. fclones keeps a pure user-space spinning thread alive whenever a hidden
/// progress bar exists, so "all threads asleep" is too strict. A process is declared hung when,
/// over a 5 s window: it has no child processes, its I/O counters (syscr, syscw, rchar, wchar)
/// do not move, and no thread performs a voluntary context switch (i.e. nobody blocks and wakes
/// up, nobody makes a system call that sleeps); threads may only be asleep or spinning.
fn quiescent(pid: u32) -> bool {
    fn io(pid: u32) -> Option<Vec<u64>> {
        let s = std::fs::read_to_string(format!("/proc/{}/io", pid)).ok()?;
        Some(
            s.lines()
                .filter(|l| l.starts_with("syscr") || l.starts_with("syscw") || l.starts_with("rchar") || l.starts_with("wchar"))
                .filter_map(|l| l.split_whitespace().nth(1)?.parse().ok())
                .collect(),
        )
    }
    fn vol(pid: u32) -> Option<Vec<(String, u64)>> {
        let mut v = vec![];
        let rd = std::fs::read_dir(format!("/proc/{}/task", pid)).ok()?;
        for t in rd.filter_map(|e| e.ok()) {
            let s = std::fs::read_to_string(t.path().join("status")).ok()?;
            let n = s
                .lines()
                .find(|l| l.starts_with("voluntary_ctxt_switches"))
                .and_then(|l| l.split_whitespace().nth(1))
                .and_then(|x| x.parse().ok())
                .unwrap_or(0);
            v.push((t.file_name().to_string_lossy().to_string(), n));
        }
        v.sort();
        Some(v)
    }
    let children = std::fs::read_to_string(format!("/proc/{}/task/{}/children", pid, pid)).unwrap_or_default();
    if !children.trim().is_empty() {
        return false;
    }
    let (Some(io0), Some(v0)) = (io(pid), vol(pid)) else { return false };
    for _ in 0..10 {
        std::thread::sleep(Duration::from_millis(500));
        match (io(pid), vol(pid)) {
            (Some(i), Some(v)) if i == io0 && v == v0 => {}
            _ => return false,
        }
    }
    let children = std::fs::read_to_string(format!("/proc/{}/task/{}/children", pid, pid)).unwrap_or_default();
    if !children.trim().is_empty() {
        return false;
    }
    HANG_SEEN.store(true, std::sync::atomic::Ordering::Relaxed);
    true
}
