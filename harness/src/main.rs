mod common;
mod ded;
mod glob;
mod grp;
mod model;
mod props;
mod report;
mod run;
mod snap;
mod tree;
mod util;

use common::Tier;
use props::grouping::Which;
use std::path::Path;

fn usage() -> ! {
    eprintln!("usage: fcv check <ID> [--tier quick|thorough] | fcv replay <ID> <file>");
    std::process::exit(2)
}

fn check(id: &str, tier: Tier) -> i32 {
    match id {
        "C01" => props::grouping::check(Which::C01, tier),
        "C02" => props::c02::check(tier),
        "C03" => props::grouping::check(Which::C03, tier),
        "C04" => props::c04::check(tier),
        "C05" => props::c05::check(tier),
        "C06" => props::c06::check(tier),
        "C07" => props::c07::check(tier),
        "C08" => props::c08::check(tier),
        "C09" => props::c09::check(tier),
        "C10" => props::c10::check(tier),
        "C11" => props::c11::check(tier),
        "C12" => props::c12::check(tier),
        "C13" => props::c13::check(tier),
        "C14" => props::c14::check(tier),
        "C15" => props::c15::check(tier),
        "C16" => props::c16::check(tier),
        "C17" => props::c17::check(tier),
        "C18" => props::c18::check(tier),
        "C19" => props::c19::check(tier),
        "C20" => props::c20::check(tier),
        _ => {
            eprintln!("unknown property {}", id);
            2
        }
    }
}

fn replay(id: &str, f: &Path) -> i32 {
    match id {
        "C01" => props::grouping::replay(Which::C01, f),
        "C02" => props::c02::replay(f),
        "C03" => props::grouping::replay(Which::C03, f),
        "C04" => props::c04::replay(f),
        "C05" => props::c05::replay(f),
        "C06" => props::c06::replay(f),
        "C07" => props::c07::replay(f),
        "C08" => props::c08::replay(f),
        "C09" => props::c09::replay(f),
        "C10" => props::c10::replay(f),
        "C11" => props::c11::replay(f),
        "C12" => props::c12::replay(f),
        "C13" => props::c13::replay(f),
        "C14" => props::c14::replay(f),
        "C15" => props::c15::replay(f),
        "C16" => props::c16::replay(f),
        "C17" => props::c17::replay(f),
        "C18" => props::c18::replay(f),
        "C19" => props::c19::replay(f),
        "C20" => props::c20::replay(f),
        _ => 2,
    }
}

fn main() {
    let os_args: Vec<std::ffi::OsString> = std::env::args_os().collect();
    if os_args.first().map(|a| a.to_string_lossy().ends_with("fcv-tr")).unwrap_or(false) {
        std::process::exit(grp::helper_main(&os_args));
    }
    let args: Vec<String> = os_args.iter().map(|a| a.to_string_lossy().to_string()).collect();
    if args.len() < 3 {
        usage();
    }
    let code = match args[1].as_str() {
        "check" => {
            let mut tier = match std::env::var("VERIF_TIER").as_deref() {
                Ok("thorough") => Tier::Thorough,
                _ => Tier::Quick,
            };
            if let Some(i) = args.iter().position(|a| a == "--tier") {
                tier = match args.get(i + 1).map(|s| s.as_str()) {
                    Some("thorough") => Tier::Thorough,
                    Some("quick") => Tier::Quick,
                    _ => usage(),
                };
            }
            check(&args[2], tier)
        }
        "replay" => {
            if args.len() < 4 {
                usage();
            }
            replay(&args[2], Path::new(&args[3]))
        }
        _ => usage(),
    };
    std::process::exit(code);
}
