mod common;
mod props;
mod util;

use common::Tier;
use std::path::Path;

fn usage() -> ! {
    eprintln!("usage: fcv check <ID> [--tier quick|thorough] | fcv replay <ID> <file>");
    std::process::exit(2)
}

fn main() {
    let args: Vec<String> = std::env::args().collect();
    if args.len() < 3 {
        usage();
    }
    let code = match args[1].as_str() {
        "check" => {
            let id = args[2].as_str();
            let mut tier = match std::env::var("VERIF_TIER").as_deref() {
                Ok("thorough") => Tier::Thorough,
                _ => Tier::Quick,
            };
            if let Some(i) = args.iter().position(|a| a == "--tier") {
                tier = match args.get(i + 1).map(|s| s.as_str()) {
                    Some("thorough") => Tier::Thorough,
                    Some("quick") => Tier::Quick,
                    _ => usage(),
                };
            }
            match id {
                "C17" => props::c17::check(tier),
                _ => {
                    eprintln!("unknown property {}", id);
                    2
                }
            }
        }
        "replay" => {
            if args.len() < 4 {
                usage();
            }
            let f = Path::new(&args[3]);
            match args[2].as_str() {
                "C17" => props::c17::replay(f),
                _ => 2,
            }
        }
        _ => usage(),
    };
    std::process::exit(code);
}
