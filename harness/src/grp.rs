//! Shared engine for the properties that observe `fclones group`: option generator, argument
//! builder, transform helpers, runner and parsing.

use crate::model::*;
use crate::report::*;
use crate::run::*;
use crate::tree::*;
use crate::util::*;
use proptest::prelude::*;
use serde::{Deserialize, Serialize};
use std::ffi::OsString;
use std::path::{Path, PathBuf};
use std::sync::Arc;

pub const HASH_FNS: [&str; 7] = ["metro", "xxhash", "blake3", "sha256", "sha512", "sha3-256", "sha3-512"];
pub const HASH_LEN: [usize; 7] = [16, 16, 32, 32, 64, 32, 64];

#[derive(Clone, Debug, Serialize, Deserialize, PartialEq, Eq)]
pub enum TrOp {
    Cat,
    Upper,
    Head(u64),
    Dd(u64),
    Expand,
    Header,
    Const,
    /// `fcv-tr needkey`: copies its input like `cat` when the file `../key` (relative to the working
    /// directory of fclones, i.e. outside the scanned roots) exists; otherwise writes only the first
    /// 16 bytes and exits with status 3 (a decoder without its key file)
    NeedKey,
}

#[derive(Clone, Debug, Serialize, Deserialize, PartialEq, Eq)]
pub enum TrIo {
    Pipe,
    In,
    Out,
    InOut,
    InPlace,
}

#[derive(Clone, Debug, Serialize, Deserialize, PartialEq, Eq)]
pub struct Tr {
    pub op: TrOp,
    pub io: TrIo,
}

pub const HEADER_LEN: usize = 5000;

impl Tr {
    /// What the transform program outputs for the given input – computed natively; the helper
    /// programs are checked against this function by `self_test`.
    pub fn apply(&self, input: &[u8]) -> Vec<u8> {
        match &self.op {
            TrOp::Cat => input.to_vec(),
            TrOp::Upper => input.iter().map(|b| if b.is_ascii_lowercase() { b - 32 } else { *b }).collect(),
            TrOp::Head(k) | TrOp::Dd(k) => input[..input.len().min(*k as usize)].to_vec(),
            TrOp::Expand => input.iter().flat_map(|b| [*b, *b]).collect(),
            TrOp::Header => {
                let mut v = vec![b'H'; HEADER_LEN];
                v.extend_from_slice(input);
                v
            }
            TrOp::Const => b"constant output\n".to_vec(),
            TrOp::NeedKey => input.to_vec(),
        }
    }

    pub fn shrinks_or_keeps(&self) -> bool {
        !matches!(self.op, TrOp::Expand | TrOp::Header)
    }

    /// The command string for --transform (space separated, `$IN` / `$OUT` placeholders).
    pub fn command(&self) -> String {
        let helper = |name: &str| -> String {
            match self.io {
                TrIo::Pipe => format!("fcv-tr {}", name),
                TrIo::In => format!("fcv-tr {} -i $IN", name),
                TrIo::Out => format!("fcv-tr {} -o $OUT", name),
                TrIo::InOut => format!("fcv-tr {} -i $IN -o $OUT", name),
                TrIo::InPlace => format!("fcv-tr {} --inplace $IN", name),
            }
        };
        match (&self.op, &self.io) {
            (TrOp::Cat, TrIo::Pipe) => "cat".into(),
            (TrOp::Cat, TrIo::In) => "cat $IN".into(),
            (TrOp::Cat, _) => helper("cat"),
            (TrOp::Upper, TrIo::Pipe) => "tr a-z A-Z".into(),
            (TrOp::Upper, _) => helper("upper"),
            (TrOp::Head(k), TrIo::Pipe) => format!("head -c {}", k),
            (TrOp::Head(k), TrIo::In) => format!("head -c {} $IN", k),
            (TrOp::Head(k), _) => helper(&format!("head:{}", k)),
            (TrOp::Dd(k), TrIo::Pipe) => format!("dd bs=1 count={}", k),
            (TrOp::Dd(k), _) => helper(&format!("head:{}", k)),
            (TrOp::Expand, _) => helper("expand"),
            (TrOp::Header, _) => helper("header"),
            (TrOp::Const, _) => helper("const"),
            (TrOp::NeedKey, _) => helper("needkey"),
        }
    }
}

/// Entry point of the `fcv-tr` helper (the fcv binary invoked under that name).
/// `fcv-tr <op> [-i IN] [-o OUT] [--inplace FILE]`; without arguments it exits at once.
pub fn helper_main(args: &[OsString]) -> i32 {
    use std::io::{Read, Write};
    if args.len() < 2 {
        return 0;
    }
    let opname_s = args[1].to_string_lossy().to_string();
    let opname = opname_s.as_str();
    let mut input: Option<OsString> = None;
    let mut output: Option<OsString> = None;
    let mut inplace: Option<OsString> = None;
    let mut quiet = false;
    let mut i = 2;
    while i < args.len() {
        match args[i].to_string_lossy().as_ref() {
            "-i" => {
                input = args.get(i + 1).cloned();
                i += 2
            }
            "-o" => {
                output = args.get(i + 1).cloned();
                i += 2
            }
            "--inplace" => {
                inplace = args.get(i + 1).cloned();
                i += 2
            }
            "-q" => {
                quiet = true;
                i += 1
            }
            _ => i += 1,
        }
    }
    let op = match opname {
        "cat" => TrOp::Cat,
        "upper" => TrOp::Upper,
        "expand" => TrOp::Expand,
        "header" => TrOp::Header,
        "const" => TrOp::Const,
        "fail" => return 3,
        "failafterread" => TrOp::Cat,
        "noout" => TrOp::Cat,
        "needkey" => TrOp::Cat,
        "scribble" => TrOp::Cat,
        "sidefile" => TrOp::Cat,
        s if s.starts_with("head:") => TrOp::Head(s[5..].parse().unwrap_or(0)),
        _ => return 2,
    };
    let src = inplace.clone().or(input);
    let mut data = vec![];
    let r = match &src {
        Some(p) => std::fs::File::open(p).and_then(|mut f| f.read_to_end(&mut data)),
        None => std::io::stdin().read_to_end(&mut data),
    };
    if r.is_err() {
        return 4;
    }
    if opname == "scribble" {
        // a transform that rewrites the file it was given (legitimate: without --no-copy that file is a
        // private copy made by fclones)
        if let Some(p) = &src {
            let mut d2 = data.clone();
            for b in d2.iter_mut().take(64) {
                *b = b.wrapping_add(1);
            }
            d2.extend_from_slice(b"scribbled");
            let _ = std::fs::write(p, &d2);
        }
        return 0;
    }
    if opname == "sidefile" {
        // a transform that leaves a by-product beside its input, as e.g. compressors and converters do
        // (legitimate: without --no-copy the input is a private copy in fclones' temporary directory)
        if let Some(p) = &src {
            let mut q = p.clone();
            q.push(".side");
            let _ = std::fs::write(q, b"by-product");
        }
    }
    if opname == "failafterread" {
        return 5;
    }
    if opname == "needkey" && !std::path::Path::new("../key").exists() {
        let so = std::io::stdout();
        let mut l = so.lock();
        let _ = l.write_all(&data[..data.len().min(16)]).and_then(|_| l.flush());
        return 3;
    }
    if opname == "noout" {
        // never opens $OUT, writes nothing
        return 0;
    }
    let out = Tr { op, io: TrIo::Pipe }.apply(&data);
    if quiet {
        return 0;
    }
    let w = if let Some(p) = inplace {
        std::fs::write(p, &out)
    } else if let Some(p) = output {
        std::fs::OpenOptions::new().write(true).open(p).and_then(|mut f| f.write_all(&out))
    } else {
        let so = std::io::stdout();
        let mut l = so.lock();
        l.write_all(&out).and_then(|_| l.flush())
    };
    if w.is_err() {
        6
    } else {
        0
    }
}

#[derive(Clone, Debug, Serialize, Deserialize, PartialEq, Eq)]
pub enum RfOpt {
    Default,
    Over(usize),
    Under(usize),
    Unique,
}

#[derive(Clone, Debug, Serialize, Deserialize, PartialEq, Eq)]
pub struct GOpts {
    pub hash_fn: u8,
    pub cache: bool,
    pub transform: Option<Tr>,
    pub max_prefix: Option<u64>,
    pub max_suffix: Option<u64>,
    /// 0 unpinned, 1 ssd, 2 hdd, 3 unknown
    pub disk: u8,
    pub threads: Vec<String>,
    pub match_links: bool,
    pub symbolic_links: bool,
    pub follow_links: bool,
    pub isolate: bool,
    pub rf: RfOpt,
    pub min0: bool,
    /// --skip-content-hash (explicitly dangerous; only C15 generates it, where the statement
    /// "an incompletely read file is never reported" does not depend on the last stage)
    #[serde(default)]
    pub skip_content_hash: bool,
    /// --no-copy: the transform program gets the original file as $IN
    #[serde(default)]
    pub no_copy: bool,
}

impl Default for GOpts {
    fn default() -> Self {
        GOpts {
            hash_fn: 0,
            cache: false,
            transform: None,
            max_prefix: None,
            max_suffix: None,
            disk: 0,
            threads: vec![],
            match_links: false,
            symbolic_links: false,
            follow_links: false,
            isolate: false,
            rf: RfOpt::Default,
            min0: false,
            skip_content_hash: false,
            no_copy: false,
        }
    }
}

pub const THREAD_SPECS: [&str; 12] =
    ["1", "0", "2", "main:1", "default:1,1", "ssd:64", "hdd:2,1", "unknown:3", "ssd:1,1", "hdd:1", "main:16", "default:4"];

pub const SIZE_KNOBS: [u64; 7] = [1, 512, 4096, 10000, 16384, 65536, 1048576];

pub fn tr_strategy(inplace_ok: bool) -> BoxedStrategy<Tr> {
    let op = prop_oneof![
        2 => Just(TrOp::Cat),
        2 => Just(TrOp::Upper),
        2 => prop_oneof![Just(1u64), Just(100), Just(4096), Just(5000), Just(70000)].prop_map(TrOp::Head),
        1 => prop_oneof![Just(2u64), Just(300), Just(1500)].prop_map(TrOp::Dd),
        3 => Just(TrOp::Expand),
        2 => Just(TrOp::Header),
        1 => Just(TrOp::Const),
    ];
    let io = if inplace_ok {
        prop_oneof![4 => Just(TrIo::Pipe), 2 => Just(TrIo::In), 2 => Just(TrIo::Out), 2 => Just(TrIo::InOut), 2 => Just(TrIo::InPlace)].boxed()
    } else {
        prop_oneof![4 => Just(TrIo::Pipe), 2 => Just(TrIo::In), 2 => Just(TrIo::Out), 2 => Just(TrIo::InOut)].boxed()
    };
    (op, io).prop_map(|(op, io)| Tr { op, io }).boxed()
}

#[derive(Clone, Debug)]
pub struct OptProfile {
    pub transform_w: f64,
    pub cache_w: f64,
    pub links: bool,
    pub isolate: bool,
    pub rf: bool,
    pub max_roots: usize,
}

pub fn gopts_strategy(p: OptProfile) -> BoxedStrategy<GOpts> {
    let knobs = (
        0u8..7,
        prop::bool::weighted(p.cache_w),
        prop::option::weighted(p.transform_w, tr_strategy(true)),
        prop::option::weighted(0.4, (0u16..u16::MAX).prop_map(|i| SIZE_KNOBS[pick(i, SIZE_KNOBS.len())])),
        prop::option::weighted(0.4, (0u16..u16::MAX).prop_map(|i| SIZE_KNOBS[pick(i, SIZE_KNOBS.len())])),
        prop_oneof![2 => Just(0u8), 3 => Just(1u8), 2 => Just(2u8), 1 => Just(3u8)],
        proptest::collection::vec((0u16..u16::MAX).prop_map(|i| THREAD_SPECS[pick(i, THREAD_SPECS.len())].to_string()), 0..3),
    );
    let links = p.links;
    let isolate = p.isolate;
    let rf = p.rf;
    let sel = (
        any::<bool>(),
        any::<bool>(),
        any::<bool>(),
        any::<bool>(),
        prop_oneof![
            5 => Just(RfOpt::Default),
            3 => (0usize..4).prop_map(RfOpt::Over),
            2 => (1usize..5).prop_map(RfOpt::Under),
            2 => Just(RfOpt::Unique),
        ],
        prop::bool::weighted(0.3),
    );
    (knobs, sel)
        .prop_map(move |((hash_fn, cache, transform, max_prefix, max_suffix, disk, threads), (ml, sl, fl, iso, rfo, min0))| {
            let mut o = GOpts {
                hash_fn,
                cache,
                transform,
                max_prefix,
                max_suffix,
                disk,
                threads,
                match_links: links && ml,
                symbolic_links: links && sl,
                follow_links: links && fl,
                isolate: isolate && iso,
                rf: if rf { rfo } else { RfOpt::Default },
                min0,
                skip_content_hash: false,
                no_copy: false,
            };
            if o.isolate {
                o.follow_links = false; // clap conflict
            }
            o
        })
        .boxed()
}

impl GOpts {
    /// Drops --isolate when fclones would reject it for this number of root arguments
    /// (keeps clean-rejection discards rare).
    pub fn fix_isolate(&mut self, nroots: usize) {
        if !self.isolate {
            return;
        }
        let rf_over = if self.transform.is_some() || !matches!(self.rf, RfOpt::Default | RfOpt::Over(_)) {
            0
        } else {
            match self.rf {
                RfOpt::Over(k) => k,
                _ => 1,
            }
        };
        let under_ok = match self.rf {
            RfOpt::Under(k) => nroots >= k,
            RfOpt::Unique => nroots >= 2,
            _ => true,
        };
        if nroots <= rf_over || !under_ok {
            self.isolate = false;
        }
    }

    pub fn rf_model(&self) -> Rf {
        match self.rf {
            RfOpt::Default => Rf::Default,
            RfOpt::Over(k) => Rf::Over(k),
            RfOpt::Under(k) => Rf::Under(k),
            RfOpt::Unique => Rf::Unique,
        }
    }

    /// Arguments after `group` except roots and output format.
    pub fn args(&self) -> Vec<OsString> {
        let mut a: Vec<OsString> = vec![];
        let mut push = |s: &str| a.push(OsString::from(s));
        if self.hash_fn != 0 {
            push("--hash-fn");
            push(HASH_FNS[self.hash_fn as usize % 7]);
        }
        if self.cache {
            push("--cache");
        }
        if let Some(t) = &self.transform {
            push("--transform");
            push(&t.command());
            if t.io == TrIo::InPlace {
                push("--in-place");
            }
        }
        if let Some(p) = self.max_prefix {
            push("--max-prefix-size");
            push(&p.to_string());
        }
        if let Some(p) = self.max_suffix {
            push("--max-suffix-size");
            push(&p.to_string());
        }
        for t in &self.threads {
            push("--threads");
            push(t);
        }
        if self.match_links {
            push("-H");
        }
        if self.symbolic_links {
            push("-S");
        }
        if self.follow_links {
            push("-L");
        }
        if self.isolate {
            push("-I");
        }
        match self.rf {
            RfOpt::Default => {}
            RfOpt::Over(k) => {
                push("--rf-over");
                push(&k.to_string());
            }
            RfOpt::Under(k) => {
                push("--rf-under");
                push(&k.to_string());
            }
            RfOpt::Unique => push("--unique"),
        }
        if self.skip_content_hash {
            push("--skip-content-hash");
        }
        if self.no_copy && self.transform.is_some() {
            push("--no-copy");
        }
        if self.min0 {
            push("--min");
            push("0");
        }
        a
    }

    pub fn disk_env(&self) -> Option<&'static str> {
        match self.disk {
            1 => Some("ssd"),
            2 => Some("hdd"),
            3 => Some("unknown"),
            _ => None,
        }
    }

    pub fn walk_opts(&self) -> WalkOpts {
        WalkOpts {
            depth: None,
            hidden: false,
            follow_links: self.follow_links,
            symbolic_links: self.symbolic_links,
            min_size: if self.min0 { 0 } else { 1 },
            max_size: None,
            one_fs: false,
        }
    }

    pub fn content_fn(&self) -> Box<dyn Fn(&SelFile) -> Arc<Vec<u8>> + '_> {
        match &self.transform {
            None => Box::new(|f: &SelFile| f.bytes.clone()),
            Some(t) => Box::new(move |f: &SelFile| Arc::new(t.apply(&f.bytes))),
        }
    }

    /// Prefix length in force for the run (None when it depends on the unpinned host device).
    pub fn prefix_len(&self) -> u64 {
        self.max_prefix.unwrap_or(match self.disk {
            1 => 4096,
            _ => 16384,
        })
    }
}

pub struct GroupRun {
    pub out: Out,
    pub report: Result<Report, String>,
    pub cmdline: String,
}

/// Runs `fclones group` on the given roots (relative to cwd = tree root), as arguments or through
/// `--stdin`, with extra environment variables for the child.
pub fn run_group_env(cd: &CaseDir, opts: &GOpts, roots: &[OsString], format: &str, extra: &[OsString], stdin: bool, envs: &[(String, String)]) -> GroupRun {
    let mut r = Run::fclones(cd).arg("group").args(opts.args()).args(extra);
    if stdin {
        r = r.arg("--stdin");
    }
    if format != "default" {
        r = r.arg("-f").arg(format);
    }
    if !stdin {
        r = r.args(roots);
    }
    if let Some(d) = opts.disk_env() {
        r = r.env("FCLONES_VERIF_DISK_KIND", d);
    }
    for (k, v) in envs {
        r = r.env(k, v);
    }
    let envs_s: String = envs.iter().map(|(k, v)| format!("{}={} ", k, v)).collect();
    let (out, cmdline) = if stdin {
        let input: Vec<u8> = roots.iter().flat_map(|x| [crate::run::os_bytes(x), b"\n".to_vec()].concat()).collect();
        let cmdline = format!("printf '%s\\n' {} | {}{}", roots.iter().map(|x| x.to_string_lossy().to_string()).collect::<Vec<_>>().join(" "), envs_s, r.cmdline());
        (r.stdin(input).run(), cmdline)
    } else {
        let cmdline = format!("{}{}", envs_s, r.cmdline());
        (r.run(), cmdline)
    };
    let report = if out.ok() {
        match format {
            "json" => parse_json(&out.stdout),
            "default" => parse_text(&out.stdout),
            _ => Err("format not parsed here".into()),
        }
    } else {
        Err(format!("exit {:?}", out.code))
    };
    GroupRun { out, report, cmdline }
}

/// Runs `fclones group` from another working directory (`cwd`), with `--base-dir` naming the tree root
/// relative to it; the roots stay relative to the tree root.
pub fn run_group_base_dir(cd: &CaseDir, opts: &GOpts, roots: &[OsString], format: &str, cwd: &Path, base_dir_arg: &str) -> GroupRun {
    let mut r = Run::fclones(cd).cwd(cwd).arg("group").args(opts.args()).arg("--base-dir").arg(base_dir_arg);
    if format != "default" {
        r = r.arg("-f").arg(format);
    }
    r = r.args(roots);
    if let Some(d) = opts.disk_env() {
        r = r.env("FCLONES_VERIF_DISK_KIND", d);
    }
    let cmdline = format!("cd {} && {}", cwd.display(), r.cmdline());
    let out = r.run();
    let report = if out.ok() {
        match format {
            "json" => parse_json(&out.stdout),
            "default" => parse_text(&out.stdout),
            _ => Err("format not parsed here".into()),
        }
    } else {
        Err(format!("exit {:?}", out.code))
    };
    GroupRun { out, report, cmdline }
}

/// Runs `fclones group` with the input paths given as arguments.
pub fn run_group(cd: &CaseDir, opts: &GOpts, roots: &[OsString], format: &str, extra: &[OsString]) -> GroupRun {
    run_group_env(cd, opts, roots, format, extra, false, &[])
}

/// Same as `run_group`, but the input paths are fed through `--stdin` (one per line) instead of arguments.
pub fn run_group_stdin(cd: &CaseDir, opts: &GOpts, roots: &[OsString], format: &str, extra: &[OsString]) -> GroupRun {
    run_group_env(cd, opts, roots, format, extra, true, &[])
}

pub fn root_args(n: usize) -> Vec<OsString> {
    (0..n.max(1)).map(|i| OsString::from(ROOT_NAMES[i % ROOT_NAMES.len()])).collect()
}

pub fn root_paths(tree: &Path, n: usize) -> Vec<PathBuf> {
    (0..n.max(1)).map(|i| tree.join(ROOT_NAMES[i % ROOT_NAMES.len()])).collect()
}

/// Is this a clean rejection of the option combination (a discard), as opposed to a crash?
pub fn clean_rejection(out: &Out) -> Option<String> {
    if out.code == Some(1) || out.code == Some(2) {
        let s = out.stderr_s();
        for pat in ["--isolate flag requires", "cannot be used with", "Invalid transform", "error:"] {
            if s.contains(pat) {
                if std::env::var_os("FCV_DEBUG_DISCARD").is_some() {
                    eprintln!("DISCARD: {}", s.lines().filter(|l| !l.contains(" info: ")).collect::<Vec<_>>().join(" | "));
                }
                return Some(pat.to_string());
            }
        }
    }
    None
}

pub fn describe_groups(groups: &[(u64, Vec<Vec<u8>>)]) -> String {
    groups
        .iter()
        .map(|(l, fs)| format!("{}:[{}]", l, fs.iter().map(|f| esc(f)).collect::<Vec<_>>().join(", ")))
        .collect::<Vec<_>>()
        .join(" ")
}
