//! Small shared helpers: byte-string newtype with readable serde form, PRNG, STFU-8 codec
//! written independently of the `stfu8` crate, hex.

use serde::{Deserialize, Deserializer, Serialize, Serializer};
use std::ffi::{OsStr, OsString};
use std::fmt;
use std::os::unix::ffi::{OsStrExt, OsStringExt};

/// Arbitrary bytes (file names, arguments). Serialized as a readable escaped string.
#[derive(Clone, PartialEq, Eq, Hash, PartialOrd, Ord, Default)]
pub struct B(pub Vec<u8>);

impl B {
    pub fn s(s: &str) -> B {
        B(s.as_bytes().to_vec())
    }
    pub fn os(&self) -> OsString {
        OsString::from_vec(self.0.clone())
    }
    pub fn as_os(&self) -> &OsStr {
        OsStr::from_bytes(&self.0)
    }
    pub fn lossy(&self) -> String {
        String::from_utf8_lossy(&self.0).to_string()
    }
}

impl fmt::Debug for B {
    fn fmt(&self, f: &mut fmt::Formatter<'_>) -> fmt::Result {
        write!(f, "b\"{}\"", esc(&self.0))
    }
}

/// Escapes bytes: printable ASCII except backslash kept; valid UTF-8 kept; the rest as \xNN.
pub fn esc(v: &[u8]) -> String {
    let mut out = String::new();
    let mut i = 0;
    while i < v.len() {
        let b = v[i];
        if b == b'\\' {
            out.push_str("\\\\");
            i += 1;
        } else if (0x20..0x7f).contains(&b) {
            out.push(b as char);
            i += 1;
        } else if b < 0x80 {
            out.push_str(&format!("\\x{:02X}", b));
            i += 1;
        } else {
            // try to take one valid UTF-8 char
            let w = utf8_width(b);
            if w > 1 && i + w <= v.len() {
                if let Ok(s) = std::str::from_utf8(&v[i..i + w]) {
                    out.push_str(s);
                    i += w;
                    continue;
                }
            }
            out.push_str(&format!("\\x{:02X}", b));
            i += 1;
        }
    }
    out
}

fn utf8_width(b: u8) -> usize {
    match b {
        0xC2..=0xDF => 2,
        0xE0..=0xEF => 3,
        0xF0..=0xF4 => 4,
        _ => 1,
    }
}

/// Inverse of `esc`; also the decoder for STFU-8 as produced by `encode_u8`
/// (`\\`, `\t`, `\n`, `\r`, `\xNN`; everything else literal UTF-8).
pub fn unesc(s: &str) -> Result<Vec<u8>, String> {
    let b = s.as_bytes();
    let mut out = Vec::with_capacity(b.len());
    let mut i = 0;
    while i < b.len() {
        if b[i] != b'\\' {
            out.push(b[i]);
            i += 1;
            continue;
        }
        if i + 1 >= b.len() {
            return Err("dangling backslash".into());
        }
        match b[i + 1] {
            b'\\' => {
                out.push(b'\\');
                i += 2
            }
            b't' => {
                out.push(b'\t');
                i += 2
            }
            b'n' => {
                out.push(b'\n');
                i += 2
            }
            b'r' => {
                out.push(b'\r');
                i += 2
            }
            b'x' => {
                if i + 3 >= b.len() {
                    return Err("short \\x escape".into());
                }
                let h = std::str::from_utf8(&b[i + 2..i + 4]).map_err(|e| e.to_string())?;
                out.push(u8::from_str_radix(h, 16).map_err(|e| e.to_string())?);
                i += 4;
            }
            c => return Err(format!("unknown escape \\{}", c as char)),
        }
    }
    Ok(out)
}

impl Serialize for B {
    fn serialize<S: Serializer>(&self, s: S) -> Result<S::Ok, S::Error> {
        s.serialize_str(&esc(&self.0))
    }
}

impl<'de> Deserialize<'de> for B {
    fn deserialize<D: Deserializer<'de>>(d: D) -> Result<B, D::Error> {
        let s = String::deserialize(d)?;
        unesc(&s).map(B).map_err(serde::de::Error::custom)
    }
}

/// splitmix64 – used for content generation and for deriving per-worker seeds.
#[derive(Clone)]
pub struct SplitMix(pub u64);

impl SplitMix {
    pub fn next(&mut self) -> u64 {
        self.0 = self.0.wrapping_add(0x9E3779B97F4A7C15);
        let mut z = self.0;
        z = (z ^ (z >> 30)).wrapping_mul(0xBF58476D1CE4E5B9);
        z = (z ^ (z >> 27)).wrapping_mul(0x94D049BB133111EB);
        z ^ (z >> 31)
    }
}

pub fn mix(a: u64, b: u64) -> u64 {
    let mut s = SplitMix(a ^ b.rotate_left(32) ^ 0xD6E8FEB86659FD93);
    s.next();
    s.next()
}

pub fn str_hash(s: &str) -> u64 {
    // FNV-1a
    let mut h: u64 = 0xcbf29ce484222325;
    for b in s.as_bytes() {
        h ^= *b as u64;
        h = h.wrapping_mul(0x100000001b3);
    }
    h
}

pub fn bytes_hash(v: &[u8]) -> u64 {
    let mut h: u64 = 0xcbf29ce484222325;
    for b in v {
        h ^= *b as u64;
        h = h.wrapping_mul(0x100000001b3);
    }
    h
}

/// Deterministic pseudo-random content of a "class": the first `size` bytes of the class stream.
pub fn class_bytes(class: u32, size: usize) -> Vec<u8> {
    let mut rng = SplitMix(0xC0FFEE ^ ((class as u64) << 20));
    let mut v = Vec::with_capacity(size + 8);
    while v.len() < size {
        v.extend_from_slice(&rng.next().to_le_bytes());
    }
    v.truncate(size);
    v
}

pub fn join_path(base: &std::path::Path, rel: &[B]) -> std::path::PathBuf {
    let mut p = base.to_path_buf();
    for c in rel {
        p.push(c.as_os());
    }
    p
}

pub fn path_bytes(p: &std::path::Path) -> Vec<u8> {
    p.as_os_str().as_bytes().to_vec()
}

pub fn bytes_path(b: &[u8]) -> std::path::PathBuf {
    std::path::PathBuf::from(OsStr::from_bytes(b))
}

/// Monotone index mapping for proptest-generated selectors (keeps shrinking effective).
pub fn pick(sel: u16, len: usize) -> usize {
    if len == 0 {
        0
    } else {
        ((sel as usize) * len) >> 16
    }
}
