//! Shared engine for the properties that observe the dedupe commands (remove / link / link -s /
//! dedupe / move): scenario generator, executor, reference keep/drop rule.

use crate::grp::*;
use crate::report::*;
use crate::run::*;
use crate::snap::*;
use crate::tree::*;
use crate::util::*;
use proptest::prelude::*;
use serde::{Deserialize, Serialize};
use std::ffi::OsString;
use std::path::{Path, PathBuf};

#[derive(Clone, Debug, Serialize, Deserialize, PartialEq, Eq)]
pub enum Op {
    Remove,
    Link,
    SoftLink,
    Dedupe,
    Move,
}

impl Op {
    pub fn name(&self) -> &'static str {
        match self {
            Op::Remove => "remove",
            Op::Link => "link",
            Op::SoftLink => "link-soft",
            Op::Dedupe => "dedupe",
            Op::Move => "move",
        }
    }
}

pub const PRIORITIES: [&str; 12] = [
    "top",
    "bottom",
    "newest",
    "oldest",
    "most-recently-modified",
    "least-recently-modified",
    "most-recently-accessed",
    "least-recently-accessed",
    "most-recent-status-change",
    "least-recent-status-change",
    "most-nested",
    "least-nested",
];

#[derive(Clone, Debug, Serialize, Deserialize, PartialEq, Eq)]
pub enum PatKind {
    /// the exact name / path, glob metacharacters escaped
    Exact,
    /// `<first char>*` for names, `<dir>/*` for paths
    Star,
    /// `*<last char>` for names, `<dir>/**` for paths
    StarStar,
}

#[derive(Clone, Debug, Serialize, Deserialize, PartialEq, Eq)]
pub struct PatSpec {
    pub sel: u16,
    pub kind: PatKind,
}

#[derive(Clone, Debug, Serialize, Deserialize, PartialEq, Eq, Default)]
pub struct DOpts {
    pub rf_over: Option<usize>,
    pub priority: Vec<u8>,
    pub name: Vec<PatSpec>,
    pub path: Vec<PatSpec>,
    pub keep_name: Vec<PatSpec>,
    pub keep_path: Vec<PatSpec>,
    /// pass --isolate <root> for every root explicitly
    pub isolate: bool,
    pub match_links: bool,
    pub no_lock: bool,
}

#[derive(Clone, Debug, Serialize, Deserialize)]
pub struct DCase {
    pub tree: TreeSpec,
    pub roots: usize,
    pub gopts: GOpts,
    /// report format fed to the dedupe command: text or JSON
    pub text: bool,
    pub op: Op,
    pub dopts: DOpts,
    /// 0: move target outside the tree, 1: inside the tree (below r0), 2: other device (tmpfs -> ext4,
    /// not known to fclones as a separate mount), 3: loop-mounted ext4 (a separate mount for fclones)
    pub move_target: u8,
}

pub fn escape_glob(s: &str) -> String {
    let mut out = String::new();
    for c in s.chars() {
        if "\\*?[]{}()|!+@,".contains(c) {
            out.push('\\');
        }
        out.push(c);
    }
    out
}

#[derive(Clone, Debug)]
pub struct ScenarioProfile {
    pub names: Names,
    pub dir_names: Names,
    pub patterns: bool,
    pub priorities: bool,
    pub symlinks: bool,
    pub match_links_ok: bool,
    pub rf: bool,
    pub ops: Vec<Op>,
    pub files: (usize, usize),
    pub hardlinks: u32,
}

pub fn pat_strategy() -> BoxedStrategy<PatSpec> {
    ((0u16..u16::MAX), prop_oneof![3 => Just(PatKind::Exact), 2 => Just(PatKind::Star), 2 => Just(PatKind::StarStar)])
        .prop_map(|(sel, kind)| PatSpec { sel, kind })
        .boxed()
}

pub fn dcase_strategy(sp: ScenarioProfile) -> BoxedStrategy<DCase> {
    (1usize..=3)
        .prop_flat_map(move |roots| {
            let sp = sp.clone();
            let p = Profile {
                names: sp.names.clone(),
                dir_names: sp.dir_names.clone(),
                roots,
                max_depth: 2,
                files: sp.files,
                classes: 3,
                boundary_sizes: false,
                max_size: 40,
                hardlinks: sp.hardlinks,
                symlinks: if sp.symlinks { 2 } else { 0 },
                near_dup_pairs: 0,
                resplit: 0,
            };
            let pats = |w: f64| {
                if sp.patterns {
                    prop_oneof![
                        100 - (w * 100.0) as u32 => Just(vec![]),
                        (w * 100.0) as u32 => proptest::collection::vec(pat_strategy(), 1..3),
                    ]
                    .boxed()
                } else {
                    Just(vec![]).boxed()
                }
            };
            let prio = if sp.priorities {
                proptest::collection::vec(0u8..12, 0..4).boxed()
            } else {
                Just(vec![]).boxed()
            };
            let dopts = (
                prop::option::weighted(0.4, 1usize..4),
                prio,
                pats(0.2),
                pats(0.2),
                pats(0.25),
                pats(0.25),
                prop::bool::weighted(0.2),
                prop::bool::weighted(0.2),
                prop::bool::weighted(0.2),
            )
                .prop_map(|(rf_over, priority, name, path, keep_name, keep_path, isolate, match_links, no_lock)| DOpts {
                    rf_over,
                    priority,
                    name,
                    path,
                    keep_name,
                    keep_path,
                    isolate,
                    match_links,
                    no_lock,
                });
            let ops = sp.ops.clone();
            let gsel = (
                prop::bool::weighted(if sp.symlinks { 0.35 } else { 0.0001 }),
                prop::bool::weighted(0.25),
                prop::bool::weighted(0.2),
                prop_oneof![4 => Just(RfOpt::Default), 2 => (0usize..3).prop_map(RfOpt::Over)],
            );
            let rf_ok = sp.rf;
            let ml_ok = sp.match_links_ok;
            (tree_strategy(&p), gsel, dopts, any::<bool>(), (0u16..u16::MAX), 0u8..4).prop_map(
                move |(tree, (sl, iso, ml, rf), mut dopts, text, opsel, move_target)| {
                    let mut gopts = GOpts::default();
                    gopts.symbolic_links = sl;
                    gopts.isolate = iso;
                    gopts.match_links = ml && ml_ok;
                    gopts.rf = if rf_ok { rf } else { RfOpt::Default };
                    gopts.fix_isolate(roots);
                    if gopts.symbolic_links {
                        // -H -S is the documented-dangerous combination: excluded
                        gopts.match_links = false;
                        dopts.match_links = false;
                    }
                    if !ml_ok {
                        dopts.match_links = false;
                    }
                    let op = ops[pick(opsel, ops.len())].clone();
                    let mut tree = tree;
                    add_decoys(&mut tree);
                    DCase { tree, roots, gopts, text, op, dopts, move_target }
                },
            )
        })
        .boxed()
}

/// Adds unrelated singleton files whose names are trimmed / escaped / unescaped variants of
/// existing file names (with unique content and old mtimes).
pub fn add_decoys(tree: &mut TreeSpec) {
    let mut extra = vec![];
    for (i, e) in tree.entries.iter().enumerate() {
        if !matches!(e.kind, Kind::File(_) | Kind::Hardlink(_)) {
            continue;
        }
        let Some(name) = e.path.last() else { continue };
        let mut variants: Vec<Vec<u8>> = vec![];
        if let Ok(s) = std::str::from_utf8(&name.0) {
            let t = s.trim();
            if t != s && !t.is_empty() {
                variants.push(t.as_bytes().to_vec());
            }
            let te = s.trim_end();
            if te != s && !te.is_empty() {
                variants.push(te.as_bytes().to_vec());
            }
        }
        let e1 = esc(&name.0);
        if e1.as_bytes() != name.0.as_slice() {
            variants.push(e1.into_bytes());
        }
        if let Ok(s) = std::str::from_utf8(&name.0) {
            if let Ok(u) = unesc(s) {
                if u != name.0 && !u.is_empty() && !u.contains(&0) && !u.contains(&b'/') {
                    variants.push(u);
                }
            }
        }
        for (k, v) in variants.into_iter().enumerate() {
            let mut p = e.path.clone();
            *p.last_mut().unwrap() = B(v);
            extra.push(Entry {
                path: p,
                kind: Kind::File(Content { class: 1000 + (i * 4 + k) as u32, size: 9, flip: None }),
                mtime: 10,
            });
        }
    }
    tree.entries.extend(extra);
}

/// Everything observed while executing a scenario.
pub struct Outcome {
    pub cd: CaseDir,
    pub built: Built,
    pub before: Snapshot,
    pub after: Snapshot,
    pub group: Out,
    pub group_cmd: String,
    pub report_bytes: Vec<u8>,
    pub report: Result<Report, String>,
    pub dedupe: Out,
    pub dedupe_cmd: String,
    pub target_dir: PathBuf,
    pub canon_roots: Vec<PathBuf>,
}

pub fn resolve_pattern(ps: &PatSpec, files: &[PathBuf], for_path: bool) -> Option<String> {
    if files.is_empty() {
        return None;
    }
    let f = &files[pick(ps.sel, files.len())];
    let name = f.file_name()?.to_string_lossy().to_string();
    let dir = f.parent()?.to_string_lossy().to_string();
    if name.contains('\u{fffd}') || dir.contains('\u{fffd}') {
        // patterns are given as UTF-8 text
        return None;
    }
    Some(if for_path {
        match ps.kind {
            PatKind::Exact => escape_glob(&f.to_string_lossy()),
            PatKind::Star => format!("{}/*", escape_glob(&dir)),
            PatKind::StarStar => format!("{}/**", escape_glob(&dir)),
        }
    } else {
        match ps.kind {
            PatKind::Exact => escape_glob(&name),
            PatKind::Star => format!("{}*", escape_glob(&name.chars().next()?.to_string())),
            PatKind::StarStar => format!("*{}", escape_glob(&name.chars().last()?.to_string())),
        }
    })
}

#[derive(Clone, Debug, Default)]
pub struct ResolvedPatterns {
    pub name: Vec<String>,
    pub path: Vec<String>,
    pub keep_name: Vec<String>,
    pub keep_path: Vec<String>,
}

pub fn dedupe_args(c: &DCase, files: &[PathBuf], canon_roots: &[PathBuf], target: &Path, dry_run: bool) -> (Vec<OsString>, ResolvedPatterns) {
    let mut a: Vec<OsString> = vec![];
    match c.op {
        Op::Remove => a.push("remove".into()),
        Op::Link => a.push("link".into()),
        Op::SoftLink => {
            a.push("link".into());
            a.push("--soft".into());
        }
        Op::Dedupe => a.push("dedupe".into()),
        Op::Move => a.push("move".into()),
    }
    if dry_run {
        a.push("--dry-run".into());
    }
    if let Some(n) = c.dopts.rf_over {
        a.push("--rf-over".into());
        a.push(n.to_string().into());
    }
    for p in &c.dopts.priority {
        a.push("--priority".into());
        a.push(PRIORITIES[*p as usize % 12].into());
    }
    let mut rp = ResolvedPatterns::default();
    for (flag, specs, for_path, dst) in [
        ("--name", &c.dopts.name, false, 0),
        ("--path", &c.dopts.path, true, 1),
        ("--keep-name", &c.dopts.keep_name, false, 2),
        ("--keep-path", &c.dopts.keep_path, true, 3),
    ] {
        for ps in specs {
            if let Some(g) = resolve_pattern(ps, files, for_path) {
                // (a value that starts with `-` has to be attached to its option)
                if g.starts_with('-') {
                    a.push(format!("{}={}", flag, g).into());
                } else {
                    a.push(flag.into());
                    a.push(g.clone().into());
                }
                match dst {
                    0 => rp.name.push(g),
                    1 => rp.path.push(g),
                    2 => rp.keep_name.push(g),
                    _ => rp.keep_path.push(g),
                }
            }
        }
    }
    if c.dopts.isolate {
        for r in canon_roots {
            a.push("--isolate".into());
            a.push(r.clone().into_os_string());
        }
    }
    if c.dopts.match_links {
        a.push("-H".into());
    }
    if c.dopts.no_lock {
        a.push("--no-lock".into());
    }
    if c.op == Op::Move {
        a.push(target.as_os_str().to_os_string());
    }
    (a, rp)
}

pub fn target_dir(cd: &CaseDir, c: &DCase) -> PathBuf {
    match c.move_target {
        1 => cd.tree().join(ROOT_NAMES[0]).join("moved_here"),
        2 => PathBuf::from(format!("/var/tmp/fcvw/p{}/mv{}", std::process::id(), bytes_hash(&path_bytes(&cd.base)))),
        3 => match second_mount() {
            Some(m) => m.join(format!("mv{}", bytes_hash(&path_bytes(&cd.base)))),
            None => PathBuf::from(format!("/var/tmp/fcvw/p{}/mv{}", std::process::id(), bytes_hash(&path_bytes(&cd.base)))),
        },
        _ => cd.base.join("mv"),
    }
}

/// Builds the tree and runs `group`; returns (casedir, built, report bytes, group out, cmdline, roots).
pub struct Grouped {
    pub cd: CaseDir,
    pub built: Built,
    pub group: Out,
    pub group_cmd: String,
    pub report_bytes: Vec<u8>,
    pub canon_roots: Vec<PathBuf>,
}

pub fn build_and_group(prop: &str, c: &DCase, n: u64, fs: Fs) -> Grouped {
    let cd = CaseDir::new(prop, n, fs);
    let built = c.tree.build(&cd.tree());
    let roots = root_args(c.roots);
    let fmt = if c.text { "default" } else { "json" };
    // one scenario in five runs `group` from the parent directory with a relative --base-dir (the report
    // header then records the resolved base directory, and the recorded command a relative one)
    let gr = if c.tree.entries.len() % 5 == 3 {
        run_group_base_dir(&cd, &c.gopts, &roots, fmt, &cd.base, "t")
    } else {
        run_group(&cd, &c.gopts, &roots, fmt, &[])
    };
    let canon_roots: Vec<PathBuf> =
        root_paths(&cd.tree(), c.roots).iter().map(|p| std::fs::canonicalize(p).unwrap_or(p.clone())).collect();
    Grouped { report_bytes: gr.out.stdout.clone(), group: gr.out, group_cmd: gr.cmdline, cd, built, canon_roots }
}

pub fn file_list(built: &Built) -> Vec<PathBuf> {
    built.entries.iter().filter(|e| matches!(e.kind, BuiltKind::File | BuiltKind::Hardlink(_))).map(|e| e.abs.clone()).collect()
}

/// Runs the whole scenario: group, snapshot, dedupe, snapshot.
pub fn execute(prop: &str, c: &DCase, n: u64, dry_run: bool) -> Outcome {
    let g = build_and_group(prop, c, n, Fs::Tmpfs);
    let target = target_dir(&g.cd, c);
    if c.op == Op::Move && c.move_target >= 2 {
        let _ = std::fs::create_dir_all(&target);
    }
    let tree = g.cd.tree();
    let before = Snapshot::take(&[&tree, &target]);
    let files = file_list(&g.built);
    let (args, _rp) = dedupe_args(c, &files, &g.canon_roots, &target, dry_run);
    // (every third case starts the dedupe command in the parent of the tree: the report carries the
    // base directory of the `group` run)
    let elsewhere = c.tree.entries.len() % 3 == 1 && !(c.op == Op::Move && !target.is_absolute());
    let mut run = Run::fclones(&g.cd).args(&args).stdin(g.report_bytes.clone());
    if elsewhere {
        run = run.cwd(&g.cd.base);
    }
    let dedupe_cmd = format!("{}{} < report", if elsewhere { "cd .. && " } else { "" }, run.cmdline());
    let dedupe = run.run();
    let after = Snapshot::take(&[&tree, &target]);
    let report = if c.text { parse_text(&g.report_bytes) } else { parse_json(&g.report_bytes) };
    Outcome {
        built: g.built,
        before,
        after,
        group: g.group,
        group_cmd: g.group_cmd,
        report_bytes: g.report_bytes,
        report,
        dedupe,
        dedupe_cmd,
        target_dir: target,
        canon_roots: g.canon_roots,
        cd: g.cd,
    }
}

impl Outcome {
    pub fn cleanup_target(&self) {
        if self.target_dir.starts_with("/var/tmp/fcvw") && self.target_dir.file_name().map(|n| n.to_string_lossy().starts_with("mv")).unwrap_or(false) {
            let _ = std::fs::remove_dir_all(&self.target_dir);
        }
    }
}

/// Effective settings of the dedupe run (explicit or inherited from the report header).
#[derive(Clone, Debug)]
pub struct Effective {
    pub n: usize,
    pub isolate_roots: Vec<PathBuf>,
    pub match_links: bool,
}

pub fn effective(c: &DCase, canon_roots: &[PathBuf]) -> Effective {
    let inherited_n = match c.gopts.rf {
        RfOpt::Over(k) => k,
        _ => 1,
    };
    Effective {
        n: c.dopts.rf_over.unwrap_or(inherited_n).max(1),
        isolate_roots: if c.dopts.isolate || c.gopts.isolate { canon_roots.to_vec() } else { vec![] },
        match_links: c.dopts.match_links || c.gopts.match_links,
    }
}

/// Reference sub-grouping of one reported group (paths in listed order), using identities from
/// the snapshot taken before the dedupe run: isolate roots in order, then by file id (unless
/// match-links), else singletons.
pub fn ref_sub_groups(files: &[Vec<u8>], before: &Snapshot, eff: &Effective) -> Vec<Vec<Vec<u8>>> {
    let mut root_groups: Vec<Vec<Vec<u8>>> = eff.isolate_roots.iter().map(|_| vec![]).collect();
    let mut singles: Vec<Vec<Vec<u8>>> = vec![];
    let mut id_groups: Vec<((u64, u64), Vec<Vec<u8>>)> = vec![];
    for f in files {
        let p = bytes_path(f);
        if let Some(i) = eff.isolate_roots.iter().position(|r| p.starts_with(r)) {
            root_groups[i].push(f.clone());
        } else if !eff.match_links {
            let id = stat_id(before, f);
            if let Some(g) = id_groups.iter_mut().find(|(i, _)| *i == id) {
                g.1.push(f.clone());
            } else {
                id_groups.push((id, vec![f.clone()]));
            }
        } else {
            singles.push(vec![f.clone()]);
        }
    }
    let mut all = root_groups;
    all.extend(singles);
    all.extend(id_groups.into_iter().map(|g| g.1));
    all.retain(|g| !g.is_empty());
    all
}

/// Identity as seen through stat (follows symlinks) in a snapshot.
pub fn stat_id(s: &Snapshot, p: &[u8]) -> (u64, u64) {
    let mut cur = p.to_vec();
    for _ in 0..40 {
        match s.get(&cur) {
            Some(n) => match &n.kind {
                NodeKind::Symlink(t) => {
                    let base = bytes_path(&cur);
                    let t = bytes_path(t);
                    let next = if t.is_absolute() { t } else { base.parent().map(|d| d.join(&t)).unwrap_or(t) };
                    cur = path_bytes(&normalize(&next));
                }
                _ => return n.id(),
            },
            None => return (0, bytes_hash(p)),
        }
    }
    (0, bytes_hash(p))
}

/// True if the path was a regular file (through symlinks) before.
pub fn is_regular_through(s: &Snapshot, p: &[u8]) -> bool {
    s.read_through(p).is_some()
}

pub fn is_temp_sibling(added: &[u8], originals: &Snapshot) -> bool {
    // "<original>.<24 alphanumerics>"
    if added.len() < 26 {
        return false;
    }
    let (stem, suffix) = added.split_at(added.len() - 25);
    suffix[0] == b'.' && suffix[1..].iter().all(|b| b.is_ascii_alphanumeric()) && originals.nodes.contains_key(stem)
}
