//! Driver shared by all property checks: sharded proptest runners, statistics, evidence,
//! known findings, replay files, exit codes.

use crate::util::{mix, str_hash};
use proptest::strategy::{Strategy, ValueTree};
use proptest::test_runner::{Config, RngAlgorithm, TestCaseError, TestError, TestRng, TestRunner};
use serde::{de::DeserializeOwned, Deserialize, Serialize};
use serde_json::{json, Value};
use std::collections::{BTreeMap, HashSet};
use std::path::{Path, PathBuf};
use std::sync::atomic::{AtomicBool, AtomicU64, Ordering};
use std::sync::Mutex;
use std::time::Instant;

pub const VERIF: &str = "/verif";

#[derive(Clone, Copy, PartialEq, Eq, Debug)]
pub enum Tier {
    Quick,
    Thorough,
}

impl Tier {
    pub fn name(self) -> &'static str {
        match self {
            Tier::Quick => "quick",
            Tier::Thorough => "thorough",
        }
    }
    pub fn pick<T>(self, q: T, t: T) -> T {
        match self {
            Tier::Quick => q,
            Tier::Thorough => t,
        }
    }
}

/// Outcome of executing one generated case.
#[derive(Debug, Clone)]
pub enum Verdict {
    /// Property held. `nontrivial`: by the property's stated rule. `classes`: labels for histograms.
    Pass { nontrivial: bool, classes: Vec<String> },
    /// Case outside the domain (e.g. fclones rejected the option combination cleanly).
    Discard(String),
    /// Property violated. `clause` names the part of the statement; `sig` are signature tags used
    /// to match known findings.
    Fail { clause: String, detail: String, sig: Vec<String> },
    /// Could not decide (watchdog, tool missing). Never a violation.
    Inconclusive(String),
}

impl Verdict {
    pub fn pass(nontrivial: bool, classes: &[&str]) -> Verdict {
        Verdict::Pass { nontrivial, classes: classes.iter().map(|s| s.to_string()).collect() }
    }
    pub fn fail(clause: &str, detail: impl Into<String>) -> Verdict {
        Verdict::Fail { clause: clause.to_string(), detail: detail.into(), sig: vec![] }
    }
    pub fn fail_sig(clause: &str, detail: impl Into<String>, sig: &[&str]) -> Verdict {
        Verdict::Fail {
            clause: clause.to_string(),
            detail: detail.into(),
            sig: sig.iter().map(|s| s.to_string()).collect(),
        }
    }
}

#[derive(Deserialize, Debug, Clone)]
pub struct KnownFinding {
    pub property: String,
    /// "open" or "fixed"
    pub status: String,
    /// all of these tags must be present in the failure's signature (clause is included as a tag)
    #[serde(default)]
    pub sig: Vec<String>,
    pub what: String,
    #[serde(default)]
    pub commit: String,
}

pub fn load_known(id: &str) -> Vec<KnownFinding> {
    let p = Path::new(VERIF).join("known_findings.json");
    let Ok(s) = std::fs::read_to_string(&p) else { return vec![] };
    let v: Value = serde_json::from_str(&s).expect("known_findings.json must parse");
    let arr = v.get("findings").and_then(|a| a.as_array()).cloned().unwrap_or_default();
    arr.into_iter()
        .filter_map(|e| serde_json::from_value::<KnownFinding>(e).ok())
        .filter(|k| k.property == id && k.status == "open")
        .collect()
}

pub struct Ctx {
    pub id: &'static str,
    pub tier: Tier,
    pub seed: u64,
    pub workers: usize,
    pub start: Instant,
    pub known: Vec<KnownFinding>,
    // statistics
    pub evaluations: AtomicU64,
    pub discards: AtomicU64,
    pub inconclusive: AtomicU64,
    pub nontrivial: Mutex<HashSet<u64>>,
    pub classes: Mutex<BTreeMap<String, u64>>,
    pub samples: Mutex<Vec<Value>>,
    pub known_hits: Mutex<BTreeMap<String, u64>>,
    pub violations: Mutex<Vec<(String, PathBuf)>>,
    pub extra: Mutex<BTreeMap<String, Value>>,
    pub inconclusive_msgs: Mutex<Vec<String>>,
    pub case_counter: AtomicU64,
    pub clause_counts: Mutex<BTreeMap<String, u64>>,
    /// distinct non-trivial cases counted in bulk by enumerating tiers (distinct by construction)
    pub bulk_nontrivial: AtomicU64,
}

impl Ctx {
    pub fn new(id: &'static str, tier: Tier) -> Ctx {
        let seed = std::env::var("VERIF_SEED").ok().and_then(|s| s.parse::<u64>().ok()).unwrap_or(0);
        let workers = std::env::var("FCV_WORKERS")
            .ok()
            .and_then(|s| s.parse().ok())
            .unwrap_or_else(|| std::thread::available_parallelism().map(|n| n.get()).unwrap_or(8).min(16));
        Ctx {
            id,
            tier,
            seed,
            workers,
            start: Instant::now(),
            known: load_known(id),
            evaluations: AtomicU64::new(0),
            discards: AtomicU64::new(0),
            inconclusive: AtomicU64::new(0),
            nontrivial: Mutex::new(HashSet::new()),
            classes: Mutex::new(BTreeMap::new()),
            samples: Mutex::new(Vec::new()),
            known_hits: Mutex::new(BTreeMap::new()),
            violations: Mutex::new(Vec::new()),
            extra: Mutex::new(BTreeMap::new()),
            inconclusive_msgs: Mutex::new(Vec::new()),
            case_counter: AtomicU64::new(0),
            clause_counts: Mutex::new(BTreeMap::new()),
            bulk_nontrivial: AtomicU64::new(0),
        }
    }

    pub fn class(&self, name: &str) {
        *self.classes.lock().unwrap().entry(name.to_string()).or_insert(0) += 1;
    }

    pub fn class_n(&self, name: &str, n: u64) {
        *self.classes.lock().unwrap().entry(name.to_string()).or_insert(0) += n;
    }

    pub fn set_extra(&self, k: &str, v: Value) {
        self.extra.lock().unwrap().insert(k.to_string(), v);
    }

    /// Returns the matching open known finding, if any.
    pub fn match_known(&self, clause: &str, sig: &[String]) -> Option<&KnownFinding> {
        self.known.iter().find(|k| k.sig.iter().all(|t| t == clause || sig.contains(t)))
    }

    /// Records the verdict of one *top-level* (non-shrinking) evaluation. Returns true when the
    /// verdict is an unknown violation.
    pub fn record<C: Serialize>(&self, case: &C, digest: u64, v: &Verdict, count: bool) -> bool {
        match v {
            Verdict::Pass { nontrivial, classes } => {
                if count {
                    self.evaluations.fetch_add(1, Ordering::Relaxed);
                    if *nontrivial {
                        self.nontrivial.lock().unwrap().insert(digest);
                        self.class("nontrivial");
                    }
                    for c in classes {
                        self.class(c);
                    }
                    let mut s = self.samples.lock().unwrap();
                    let want = *nontrivial || s.len() < 3;
                    if s.len() < 12 && want {
                        if let Ok(v) = serde_json::to_value(case) {
                            s.push(v);
                        }
                    }
                }
                false
            }
            Verdict::Discard(why) => {
                if count {
                    self.evaluations.fetch_add(1, Ordering::Relaxed);
                    self.discards.fetch_add(1, Ordering::Relaxed);
                    self.class(&format!("discard:{}", why));
                }
                false
            }
            Verdict::Inconclusive(why) => {
                if count {
                    self.evaluations.fetch_add(1, Ordering::Relaxed);
                    self.inconclusive.fetch_add(1, Ordering::Relaxed);
                    let mut m = self.inconclusive_msgs.lock().unwrap();
                    if m.len() < 5 {
                        m.push(why.clone());
                    }
                }
                false
            }
            Verdict::Fail { clause, sig, .. } => {
                if let Some(k) = self.match_known(clause, sig) {
                    if count {
                        self.evaluations.fetch_add(1, Ordering::Relaxed);
                        *self.known_hits.lock().unwrap().entry(k.what.clone()).or_insert(0) += 1;
                    }
                    false
                } else {
                    if count {
                        self.evaluations.fetch_add(1, Ordering::Relaxed);
                    }
                    true
                }
            }
        }
    }

    pub fn report_violation<C: Serialize>(&self, case: &C, v: &Verdict) {
        let (clause, detail, sig) = match v {
            Verdict::Fail { clause, detail, sig } => (clause.clone(), detail.clone(), sig.clone()),
            _ => ("?".to_string(), format!("{:?}", v), vec![]),
        };
        let case_v = serde_json::to_value(case).unwrap_or(Value::Null);
        let body = json!({
            "property": self.id,
            "clause": clause,
            "detail": detail,
            "sig": sig,
            "seed": self.seed,
            "tier": self.tier.name(),
            "case": case_v,
        });
        let text = serde_json::to_string_pretty(&body).unwrap();
        let digest = str_hash(&serde_json::to_string(&case_v).unwrap_or_default());
        let dir = Path::new(VERIF).join("replays");
        let _ = std::fs::create_dir_all(&dir);
        let path = dir.join(format!("{}-{:016x}.json", self.id, digest));
        let _ = std::fs::write(&path, text);
        let mut viol = self.violations.lock().unwrap();
        if viol.iter().any(|(_, p)| *p == path) {
            return;
        }
        println!("VIOLATION property={} replay={}", self.id, path.display());
        println!("  clause: {}", clause);
        for l in detail.lines().take(40) {
            println!("  | {}", l);
        }
        viol.push((clause, path));
    }

    /// For enumerating tiers: records a failing verdict and reports it unless it matches a known
    /// finding or `limit` violations of the same clause were already reported in this run.
    pub fn report_limited<C: Serialize>(&self, case: &C, v: &Verdict, limit: u64) {
        if !self.record(case, digest_of(case), v, false) {
            return;
        }
        let clause = match v {
            Verdict::Fail { clause, .. } => clause.clone(),
            _ => "?".into(),
        };
        let n = {
            let mut m = self.clause_counts.lock().unwrap();
            let e = m.entry(clause.clone()).or_insert(0);
            *e += 1;
            *e
        };
        if n <= limit {
            self.report_violation(case, v);
        } else if n == limit + 1 {
            println!("(further violations of clause {} are counted but not listed)", clause);
        }
    }

    /// Writes evidence and returns the process exit code.
    pub fn finish(&self, level: &str, rule: &str, assumptions: &[&str]) -> i32 {
        let viol = self.violations.lock().unwrap();
        let known = self.known_hits.lock().unwrap();
        for k in &self.known {
            // An open finding is reported whenever it is listed, with the number of generated
            // cases that hit it in this run.
            let n = known.get(&k.what).copied().unwrap_or(0);
            println!("KNOWN-FINDING: property={} {} (hit by {} generated cases in this run)", self.id, k.what, n);
        }
        let nontriv = self.nontrivial.lock().unwrap().len() as u64 + self.bulk_nontrivial.load(Ordering::Relaxed);
        let mut coverage = serde_json::Map::new();
        coverage.insert("evaluations".into(), json!(self.evaluations.load(Ordering::Relaxed)));
        coverage.insert("distinct_nontrivial".into(), json!(nontriv));
        coverage.insert("rule".into(), json!(rule));
        coverage.insert("samples".into(), Value::Array(self.samples.lock().unwrap().clone()));
        coverage.insert("discards".into(), json!(self.discards.load(Ordering::Relaxed)));
        coverage.insert("inconclusive".into(), json!(self.inconclusive.load(Ordering::Relaxed)));
        coverage.insert("classes".into(), json!(*self.classes.lock().unwrap()));
        coverage.insert("known_finding_hits".into(), json!(*known));
        coverage.insert("violations_by_clause".into(), json!(*self.clause_counts.lock().unwrap()));
        for (k, v) in self.extra.lock().unwrap().iter() {
            coverage.insert(k.clone(), v.clone());
        }
        let ev = json!({
            "property_id": self.id,
            "tier": self.tier.name(),
            "seed": self.seed,
            "level": level,
            "coverage": Value::Object(coverage),
            "assumptions": assumptions,
            "wall_s": self.start.elapsed().as_secs_f64(),
            "violations": viol.len(),
        });
        let dir = Path::new(VERIF).join("evidence");
        let _ = std::fs::create_dir_all(&dir);
        let _ = std::fs::write(dir.join(format!("{}.json", self.id)), serde_json::to_string_pretty(&ev).unwrap());
        let inc = self.inconclusive.load(Ordering::Relaxed);
        println!(
            "{} {}: evaluations={} nontrivial={} discards={} inconclusive={} violations={} wall={:.1}s",
            self.id,
            self.tier.name(),
            self.evaluations.load(Ordering::Relaxed),
            nontriv,
            self.discards.load(Ordering::Relaxed),
            inc,
            viol.len(),
            self.start.elapsed().as_secs_f64()
        );
        for m in self.inconclusive_msgs.lock().unwrap().iter() {
            println!("INCONCLUSIVE-CASE: {}", m);
        }
        if !viol.is_empty() {
            1
        } else if inc > 0 && inc * 10 > self.evaluations.load(Ordering::Relaxed) {
            println!("INCONCLUSIVE: more than 10% of the cases could not be decided");
            2
        } else {
            0
        }
    }
}

fn rng_for(seed: u64, id: &str, worker: u64) -> TestRng {
    let s = mix(mix(seed, str_hash(id)), worker);
    let mut bytes = [0u8; 32];
    for i in 0..4 {
        bytes[i * 8..i * 8 + 8].copy_from_slice(&mix(s, i as u64).to_le_bytes());
    }
    TestRng::from_seed(RngAlgorithm::ChaCha, &bytes)
}

pub fn digest_of<C: Serialize>(c: &C) -> u64 {
    str_hash(&serde_json::to_string(c).unwrap_or_default())
}

/// Runs `total_cases` generated cases sharded over the workers. `run` executes one case; its
/// second argument is a (worker, sequence) pair usable for scratch directory names.
pub fn drive<C, S, M, F>(ctx: &Ctx, label: &str, total_cases: u64, mk_strategy: M, run: F)
where
    C: std::fmt::Debug + Clone + Serialize + Send,
    S: Strategy<Value = C>,
    M: Fn() -> S + Sync,
    F: Fn(&C, u64) -> Verdict + Sync,
{
    let workers = ctx.workers.max(1) as u64;
    let per = (total_cases + workers - 1) / workers;
    let stop = AtomicBool::new(false);
    let label_h = str_hash(label);
    std::thread::scope(|sc| {
        for w in 0..workers {
            let mk_strategy = &mk_strategy;
            let run = &run;
            let stop = &stop;
            sc.spawn(move || {
                let config = Config {
                    cases: per as u32,
                    failure_persistence: None,
                    max_shrink_iters: 400,
                    max_global_rejects: 100_000,
                    ..Config::default()
                };
                let strategy = mk_strategy();
                let mut runner = TestRunner::new_with_rng(config, rng_for(ctx.seed ^ label_h, ctx.id, w));
                let failed = AtomicBool::new(false);
                let first_fail: Mutex<Option<Verdict>> = Mutex::new(None);
                let result = runner.run(&strategy, |case| {
                    if stop.load(Ordering::Relaxed) {
                        // another worker has already reported a shrunk violation: finish quickly
                        // (also ends an ongoing shrink of this worker at its current candidate)
                        return Ok(());
                    }
                    let n = ctx.case_counter.fetch_add(1, Ordering::Relaxed);
                    let v = run(&case, n);
                    let count = !failed.load(Ordering::Relaxed);
                    let bad = ctx.record(&case, digest_of(&case), &v, count);
                    if bad {
                        if let Verdict::Fail { sig, .. } = &v {
                            if sig.iter().any(|t| t == "no-shrink") {
                                // expensive failures (hangs) are reported as found, without shrinking
                                ctx.report_violation(&case, &v);
                                stop.store(true, Ordering::Relaxed);
                                return Ok(());
                            }
                        }
                        failed.store(true, Ordering::Relaxed);
                        *first_fail.lock().unwrap() = Some(v.clone());
                        let msg = match &v {
                            Verdict::Fail { clause, .. } => clause.clone(),
                            _ => "fail".into(),
                        };
                        Err(TestCaseError::fail(msg))
                    } else {
                        Ok(())
                    }
                });
                if let Err(TestError::Fail(_, minimal)) = result {
                    stop.store(true, Ordering::Relaxed);
                    // Re-run the minimal case to obtain its verdict for the replay file.
                    let mut v = Verdict::pass(false, &[]);
                    for _ in 0..3 {
                        let n = ctx.case_counter.fetch_add(1, Ordering::Relaxed);
                        v = run(&minimal, n);
                        if matches!(v, Verdict::Fail { .. }) {
                            break;
                        }
                    }
                    if !matches!(v, Verdict::Fail { .. }) {
                        // the failure was observed but does not reproduce deterministically
                        let first = first_fail.lock().unwrap().clone();
                        v = match first {
                            Some(Verdict::Fail { clause, detail, mut sig }) => {
                                sig.push("not-reproduced-on-rerun".into());
                                Verdict::Fail { clause, detail: format!("(observed once, minimal case passed on 3 re-runs)\n{}", detail), sig }
                            }
                            _ => Verdict::fail("flaky", "failure observed during search did not reproduce"),
                        };
                    }
                    ctx.report_violation(&minimal, &v);
                } else if let Err(TestError::Abort(r)) = result {
                    ctx.inconclusive.fetch_add(1, Ordering::Relaxed);
                    ctx.inconclusive_msgs.lock().unwrap().push(format!("proptest abort: {}", r));
                }
            });
        }
    });
}

/// Executes explicitly enumerated cases (bounded-exhaustive tiers, corpus replay), in parallel.
pub fn drive_list<C, F>(ctx: &Ctx, cases: Vec<C>, run: F)
where
    C: std::fmt::Debug + Clone + Serialize + Send + Sync,
    F: Fn(&C, u64) -> Verdict + Sync,
{
    let next = AtomicU64::new(0);
    let workers = ctx.workers.max(1);
    let reported = AtomicU64::new(0);
    std::thread::scope(|sc| {
        for _ in 0..workers {
            let cases = &cases;
            let next = &next;
            let run = &run;
            let reported = &reported;
            sc.spawn(move || loop {
                let i = next.fetch_add(1, Ordering::Relaxed) as usize;
                if i >= cases.len() {
                    break;
                }
                let n = ctx.case_counter.fetch_add(1, Ordering::Relaxed);
                let v = run(&cases[i], n);
                if ctx.record(&cases[i], digest_of(&cases[i]), &v, true) {
                    // report at most a handful of enumerated violations
                    if reported.fetch_add(1, Ordering::Relaxed) < 5 {
                        ctx.report_violation(&cases[i], &v);
                    } else {
                        ctx.violations.lock().unwrap().push(("more".into(), PathBuf::from("(not saved)")));
                    }
                }
            });
        }
    });
}

/// Replays saved regression cases from /verif/corpus/<id>/*.json
pub fn replay_corpus<C, F>(ctx: &Ctx, run: F)
where
    C: std::fmt::Debug + Clone + Serialize + DeserializeOwned + Send + Sync,
    F: Fn(&C, u64) -> Verdict + Sync,
{
    let dir = Path::new(VERIF).join("corpus").join(ctx.id);
    let mut cases: Vec<C> = vec![];
    let mut names = vec![];
    if let Ok(rd) = std::fs::read_dir(&dir) {
        let mut files: Vec<_> = rd.filter_map(|e| e.ok()).map(|e| e.path()).collect();
        files.sort();
        for f in files {
            if f.extension().map(|e| e == "json").unwrap_or(false) {
                if let Some(c) = load_case::<C>(&f) {
                    cases.push(c);
                    names.push(f);
                }
            }
        }
    }
    ctx.set_extra("corpus_cases_replayed", json!(cases.len()));
    drive_list(ctx, cases, run);
}

pub fn load_case<C: DeserializeOwned>(f: &Path) -> Option<C> {
    let s = std::fs::read_to_string(f).ok()?;
    let v: Value = serde_json::from_str(&s).ok()?;
    let c = v.get("case").cloned().unwrap_or(v);
    serde_json::from_value(c).ok()
}

/// Runs a single saved case (replay mode); exit code 1 on failure.
pub fn replay_one<C, F>(id: &str, file: &Path, run: F) -> i32
where
    C: std::fmt::Debug + DeserializeOwned,
    F: Fn(&C, u64) -> Verdict,
{
    let Some(c) = load_case::<C>(file) else {
        eprintln!("cannot load case from {}", file.display());
        return 2;
    };
    let v = run(&c, 0);
    println!("{:#?}", v);
    match v {
        Verdict::Fail { .. } => {
            println!("VIOLATION property={} replay={}", id, file.display());
            1
        }
        Verdict::Inconclusive(_) => 2,
        _ => 0,
    }
}

/// Draws `n` values from a strategy with a fixed seed (used by enumerating tiers for sampling).
pub fn sample<S: Strategy>(s: &S, seed: u64, n: usize) -> Vec<S::Value> {
    let mut runner = TestRunner::new_with_rng(Config::default(), rng_for(seed, "sample", 0));
    (0..n).filter_map(|_| s.new_tree(&mut runner).ok().map(|t| t.current())).collect()
}
