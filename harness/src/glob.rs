//! Reference glob matcher written from README "Path Globbing" (not from pattern.rs):
//! `?` and `*` do not cross `/`, `**` does, `[..]`/`[!..]` character sets with ranges,
//! `{a,b}` = `@(a|b)`, `?(..)`, `+(..)`, `*(..)`, `\` escapes, everything else literal.

#[derive(Clone, Debug, PartialEq)]
pub enum G {
    Lit(char),
    Any1,
    Star,
    StarStar,
    Class { neg: bool, items: Vec<(char, char)> },
    /// exactly one of
    Alt(Vec<Vec<G>>),
    /// at most one of
    Opt(Vec<Vec<G>>),
    /// at least one of
    Plus(Vec<Vec<G>>),
    /// any number of
    Many(Vec<Vec<G>>),
}

#[derive(Clone, Copy, PartialEq)]
enum Ctx {
    Top,
    Curly,
    Round,
}

pub fn parse(glob: &str) -> Result<Vec<G>, String> {
    let chars: Vec<char> = glob.chars().collect();
    let (g, pos) = parse_seq(&chars, 0, Ctx::Top)?;
    if pos != chars.len() {
        return Err(format!("unexpected {:?} at {}", chars[pos], pos));
    }
    Ok(g)
}

fn parse_alts(c: &[char], mut pos: usize, ctx: Ctx, sep: char, close: char) -> Result<(Vec<Vec<G>>, usize), String> {
    let mut alts = vec![];
    loop {
        let (seq, p) = parse_seq(c, pos, ctx)?;
        alts.push(seq);
        pos = p;
        match c.get(pos) {
            Some(x) if *x == sep => pos += 1,
            Some(x) if *x == close => return Ok((alts, pos + 1)),
            _ => return Err("unbalanced group".into()),
        }
    }
}

fn parse_seq(c: &[char], mut pos: usize, ctx: Ctx) -> Result<(Vec<G>, usize), String> {
    let mut out = vec![];
    while pos < c.len() {
        let ch = c[pos];
        match ch {
            '\\' => {
                let n = *c.get(pos + 1).ok_or("dangling escape")?;
                out.push(G::Lit(n));
                pos += 2;
            }
            '{' => {
                let (alts, p) = parse_alts(c, pos + 1, Ctx::Curly, ',', '}')?;
                out.push(G::Alt(alts));
                pos = p;
            }
            '?' | '*' | '+' | '@' | '!' if c.get(pos + 1) == Some(&'(') => {
                let (alts, p) = parse_alts(c, pos + 2, Ctx::Round, '|', ')')?;
                out.push(match ch {
                    '?' => G::Opt(alts),
                    '*' => G::Many(alts),
                    '+' => G::Plus(alts),
                    '@' => G::Alt(alts),
                    _ => return Err("!( ) is not supported".into()),
                });
                pos = p;
            }
            '*' => {
                if c.get(pos + 1) == Some(&'*') {
                    out.push(G::StarStar);
                    pos += 2;
                } else {
                    out.push(G::Star);
                    pos += 1;
                }
            }
            '?' => {
                out.push(G::Any1);
                pos += 1;
            }
            '[' => {
                let mut p = pos + 1;
                let neg = c.get(p) == Some(&'!');
                if neg {
                    p += 1;
                }
                let mut items = vec![];
                let mut closed = false;
                while p < c.len() {
                    if c[p] == ']' {
                        closed = true;
                        p += 1;
                        break;
                    }
                    if c.get(p + 1) == Some(&'-') && c.get(p + 2).map(|x| *x != ']').unwrap_or(false) {
                        items.push((c[p], c[p + 2]));
                        p += 3;
                    } else {
                        items.push((c[p], c[p]));
                        p += 1;
                    }
                }
                if !closed {
                    return Err("unclosed [".into());
                }
                out.push(G::Class { neg, items });
                pos = p;
            }
            ',' | '}' if ctx == Ctx::Curly => return Ok((out, pos)),
            '|' | ')' if ctx == Ctx::Round => return Ok((out, pos)),
            // characters that would be structural in a nested context cannot be literal there
            '{' | '(' if ctx != Ctx::Top => return Err("nested bracket literal".into()),
            _ => {
                out.push(G::Lit(ch));
                pos += 1;
            }
        }
    }
    Ok((out, pos))
}

fn fold(c: char, ci: bool) -> char {
    if ci {
        c.to_lowercase().next().unwrap_or(c)
    } else {
        c
    }
}

fn m(pat: &[G], s: &[char], ci: bool, k: &dyn Fn(&[char]) -> bool) -> bool {
    let Some((first, rest)) = pat.split_first() else { return k(s) };
    match first {
        G::Lit(c) => !s.is_empty() && fold(s[0], ci) == fold(*c, ci) && m(rest, &s[1..], ci, k),
        G::Any1 => !s.is_empty() && s[0] != '/' && m(rest, &s[1..], ci, k),
        G::Class { neg, items } => {
            if s.is_empty() {
                return false;
            }
            let ch = s[0];
            let hit = items.iter().any(|(a, b)| {
                (*a <= ch && ch <= *b) || (ci && fold(*a, true) <= fold(ch, true) && fold(ch, true) <= fold(*b, true))
            });
            (hit != *neg) && m(rest, &s[1..], ci, k)
        }
        G::Star => {
            let mut i = 0;
            loop {
                if m(rest, &s[i..], ci, k) {
                    return true;
                }
                if i < s.len() && s[i] != '/' {
                    i += 1;
                } else {
                    return false;
                }
            }
        }
        G::StarStar => (0..=s.len()).any(|i| m(rest, &s[i..], ci, k)),
        G::Alt(alts) => alts.iter().any(|a| m(a, s, ci, &|r| m(rest, r, ci, k))),
        G::Opt(alts) => m(rest, s, ci, k) || alts.iter().any(|a| m(a, s, ci, &|r| m(rest, r, ci, k))),
        G::Plus(alts) => alts.iter().any(|a| m(a, s, ci, &|r| many(alts, rest, r, ci, k, s.len()))),
        G::Many(alts) => many(alts, rest, s, ci, k, usize::MAX),
    }
}

fn many(alts: &[Vec<G>], rest: &[G], s: &[char], ci: bool, k: &dyn Fn(&[char]) -> bool, prev_len: usize) -> bool {
    let _ = prev_len;
    if m(rest, s, ci, k) {
        return true;
    }
    alts.iter().any(|a| m(a, s, ci, &|r| r.len() < s.len() && many(alts, rest, r, ci, k, s.len())))
}

pub fn glob_matches(pat: &[G], s: &str, case_insensitive: bool) -> bool {
    let chars: Vec<char> = s.chars().collect();
    m(pat, &chars, case_insensitive, &|r| r.is_empty())
}

/// Convenience: parse + match; `None` when the glob is not parseable by the reference grammar.
pub fn ref_match(glob: &str, s: &str, ci: bool) -> Option<bool> {
    parse(glob).ok().map(|g| glob_matches(&g, s, ci))
}

#[cfg(test)]
mod t {
    use super::*;
    #[test]
    fn basics() {
        assert_eq!(ref_match("a*b", "axxb", false), Some(true));
        assert_eq!(ref_match("a*b", "ax/b", false), Some(false));
        assert_eq!(ref_match("a**b", "ax/b", false), Some(true));
        assert_eq!(ref_match("{a,b*}c", "bxc", false), Some(true));
        assert_eq!(ref_match("+(a|b)", "abba", false), Some(true));
        assert_eq!(ref_match("+(a|b)", "", false), Some(false));
        assert_eq!(ref_match("*(a|b)", "", false), Some(true));
        assert_eq!(ref_match("?(a|b)c", "c", false), Some(true));
        assert_eq!(ref_match("[!a]", "b", false), Some(true));
        assert_eq!(ref_match("\\*", "*", false), Some(true));
        assert_eq!(ref_match("\\*", "x", false), Some(false));
        assert_eq!(ref_match("A?", "ab", true), Some(true));
    }
}
