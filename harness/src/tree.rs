//! Tree specifications: pure data describing a directory tree, built by construction.

use crate::util::*;
use proptest::prelude::*;
use serde::{Deserialize, Serialize};
use std::collections::BTreeMap;
use std::ffi::CString;
use std::os::unix::ffi::OsStrExt;
use std::path::{Path, PathBuf};

pub const BASE_TIME: i64 = 1_577_836_800; // 2020-01-01T00:00:00Z

#[derive(Clone, Debug, Serialize, Deserialize, PartialEq, Eq, Hash)]
pub struct Content {
    pub class: u32,
    pub size: u64,
    /// byte offset (taken modulo size) whose value is inverted
    pub flip: Option<u64>,
}

impl Content {
    pub fn bytes(&self) -> Vec<u8> {
        let mut v = class_bytes(self.class, self.size as usize);
        if let Some(off) = self.flip {
            if !v.is_empty() {
                let i = (off % self.size) as usize;
                v[i] ^= 0xFF;
            }
        }
        v
    }
}

#[derive(Clone, Debug, Serialize, Deserialize, PartialEq, Eq)]
pub enum LinkStyle {
    Relative,
    Absolute,
    Dangling,
    SelfCycle,
    /// absolute, but not canonical: `<dir>/../<dir name>/<name>`
    AbsoluteDotDot,
}

#[derive(Clone, Debug, Serialize, Deserialize, PartialEq, Eq)]
pub enum Kind {
    Dir,
    File(Content),
    /// hard link to an earlier regular file chosen by the selector; plain file if there is none
    Hardlink(u16),
    /// symlink to an earlier entry (file or directory) chosen by the selector
    Symlink(u16, LinkStyle),
    /// symlink with a literal target
    RawSymlink(B),
    /// regular file with literal bytes (ignore files etc.)
    Literal(B),
    /// hard link to the file at the given relative path (plain copy of class 0 if it is missing)
    HardlinkOf(Vec<B>),
}

#[derive(Clone, Debug, Serialize, Deserialize, PartialEq, Eq)]
pub struct Entry {
    /// path relative to the tree root
    pub path: Vec<B>,
    pub kind: Kind,
    /// seconds after BASE_TIME used for mtime (and atime = mtime + 1000 s)
    pub mtime: u32,
}

#[derive(Clone, Debug, Serialize, Deserialize, PartialEq, Eq, Default)]
pub struct TreeSpec {
    pub entries: Vec<Entry>,
}

#[derive(Clone, Debug, PartialEq, Eq)]
pub enum BuiltKind {
    Dir,
    File,
    Hardlink(usize),
    Symlink,
}

#[derive(Clone, Debug)]
pub struct BuiltEntry {
    pub spec_index: usize,
    pub rel: Vec<B>,
    pub abs: PathBuf,
    pub kind: BuiltKind,
}

#[derive(Clone, Debug, Default)]
pub struct Built {
    pub root: PathBuf,
    pub entries: Vec<BuiltEntry>,
}

pub fn set_times(p: &Path, mtime_s: i64, mtime_ns: i64, atime_s: i64) {
    let c = CString::new(p.as_os_str().as_bytes()).unwrap();
    let ts = [
        libc::timespec { tv_sec: atime_s, tv_nsec: 0 },
        libc::timespec { tv_sec: mtime_s, tv_nsec: mtime_ns },
    ];
    unsafe {
        libc::utimensat(libc::AT_FDCWD, c.as_ptr(), ts.as_ptr(), libc::AT_SYMLINK_NOFOLLOW);
    }
}

fn rel_path(from_dir: &[B], to: &[B]) -> Vec<u8> {
    let mut common = 0;
    while common < from_dir.len() && common < to.len() && from_dir[common] == to[common] {
        common += 1;
    }
    let mut parts: Vec<Vec<u8>> = vec![];
    for _ in common..from_dir.len() {
        parts.push(b"..".to_vec());
    }
    for c in &to[common..] {
        parts.push(c.0.clone());
    }
    if parts.is_empty() {
        parts.push(b".".to_vec());
    }
    parts.join(&b'/')
}

impl TreeSpec {
    /// Creates the tree under `root` (which must exist and be empty). Entries that cannot be
    /// created (name clash, parent is a file) are skipped, so every spec is buildable.
    pub fn build(&self, root: &Path) -> Built {
        let mut built = Built { root: root.to_path_buf(), entries: vec![] };
        let mut kinds: BTreeMap<Vec<B>, BuiltKind> = BTreeMap::new();
        for (idx, e) in self.entries.iter().enumerate() {
            if e.path.is_empty()
                || e.path.iter().any(|c| c.0.is_empty() || c.0.contains(&b'/') || c.0.contains(&0) || c.0 == b"." || c.0 == b"..")
                || e.path.iter().any(|c| c.0.len() > 255)
            {
                continue;
            }
            // create parents
            let mut ok = true;
            for i in 1..e.path.len() {
                let pre = e.path[..i].to_vec();
                match kinds.get(&pre) {
                    Some(BuiltKind::Dir) => {}
                    Some(_) => {
                        ok = false;
                        break;
                    }
                    None => {
                        let p = join_path(root, &pre);
                        if std::fs::create_dir(&p).is_err() {
                            ok = false;
                            break;
                        }
                        kinds.insert(pre.clone(), BuiltKind::Dir);
                        built.entries.push(BuiltEntry { spec_index: usize::MAX, rel: pre, abs: p, kind: BuiltKind::Dir });
                    }
                }
            }
            if !ok || kinds.contains_key(&e.path) {
                continue;
            }
            let abs = join_path(root, &e.path);
            let bk = match &e.kind {
                Kind::Dir => {
                    if std::fs::create_dir(&abs).is_err() {
                        continue;
                    }
                    BuiltKind::Dir
                }
                Kind::File(c) => {
                    if std::fs::write(&abs, c.bytes()).is_err() {
                        continue;
                    }
                    BuiltKind::File
                }
                Kind::Literal(b) => {
                    if std::fs::write(&abs, &b.0).is_err() {
                        continue;
                    }
                    BuiltKind::File
                }
                Kind::Hardlink(sel) => {
                    let files: Vec<usize> = built
                        .entries
                        .iter()
                        .enumerate()
                        .filter(|(_, b)| matches!(b.kind, BuiltKind::File | BuiltKind::Hardlink(_)))
                        .map(|(i, _)| i)
                        .collect();
                    if files.is_empty() {
                        let c = Content { class: 0, size: 100, flip: None };
                        if std::fs::write(&abs, c.bytes()).is_err() {
                            continue;
                        }
                        BuiltKind::File
                    } else {
                        let t = files[pick(*sel, files.len())];
                        let t = match built.entries[t].kind {
                            BuiltKind::Hardlink(orig) => orig,
                            _ => t,
                        };
                        if std::fs::hard_link(&built.entries[t].abs, &abs).is_err() {
                            continue;
                        }
                        BuiltKind::Hardlink(t)
                    }
                }
                Kind::HardlinkOf(rel) => {
                    let t = built.entries.iter().position(|b| &b.rel == rel && matches!(b.kind, BuiltKind::File | BuiltKind::Hardlink(_)));
                    match t {
                        Some(t) => {
                            let t = match built.entries[t].kind {
                                BuiltKind::Hardlink(orig) => orig,
                                _ => t,
                            };
                            if std::fs::hard_link(&built.entries[t].abs, &abs).is_err() {
                                continue;
                            }
                            BuiltKind::Hardlink(t)
                        }
                        None => {
                            let c = Content { class: 0, size: 100, flip: None };
                            if std::fs::write(&abs, c.bytes()).is_err() {
                                continue;
                            }
                            BuiltKind::File
                        }
                    }
                }
                Kind::Symlink(sel, style) => {
                    let cands: Vec<usize> = (0..built.entries.len()).collect();
                    let target: Vec<u8> = match style {
                        LinkStyle::SelfCycle => e.path.last().unwrap().0.clone(),
                        LinkStyle::Dangling => b"no-such-target".to_vec(),
                        _ if cands.is_empty() => b"no-such-target".to_vec(),
                        LinkStyle::Relative => {
                            let t = &built.entries[cands[pick(*sel, cands.len())]];
                            rel_path(&e.path[..e.path.len() - 1], &t.rel)
                        }
                        LinkStyle::Absolute => {
                            let t = &built.entries[cands[pick(*sel, cands.len())]];
                            path_bytes(&t.abs)
                        }
                        LinkStyle::AbsoluteDotDot => {
                            let t = &built.entries[cands[pick(*sel, cands.len())]];
                            match (t.abs.parent(), t.abs.parent().and_then(|d| d.file_name()), t.abs.file_name()) {
                                (Some(d), Some(dn), Some(n)) => path_bytes(&d.join("..").join(dn).join(n)),
                                _ => path_bytes(&t.abs),
                            }
                        }
                    };
                    if std::os::unix::fs::symlink(bytes_path(&target), &abs).is_err() {
                        continue;
                    }
                    BuiltKind::Symlink
                }
                Kind::RawSymlink(t) => {
                    if t.0.is_empty() || t.0.contains(&0) || std::os::unix::fs::symlink(bytes_path(&t.0), &abs).is_err() {
                        continue;
                    }
                    BuiltKind::Symlink
                }
            };
            kinds.insert(e.path.clone(), bk.clone());
            built.entries.push(BuiltEntry { spec_index: idx, rel: e.path.clone(), abs, kind: bk });
        }
        // timestamps last (creating children changes directory mtimes; those are never compared)
        for b in &built.entries {
            if b.spec_index == usize::MAX {
                continue;
            }
            let e = &self.entries[b.spec_index];
            match b.kind {
                BuiltKind::File => set_times(&b.abs, BASE_TIME + e.mtime as i64, 0, BASE_TIME + e.mtime as i64 + 1000),
                _ => {}
            }
        }
        built
    }
}

// ---------------------------------------------------------------------------------------------
// Generators

/// Sizes that straddle every stage threshold of the grouping pipeline.
pub const BOUNDARY_SIZES: [u64; 22] = [
    0, 1, 2, 511, 4095, 4096, 4097, 8192, 10000, 16383, 16384, 16385, 32768, 65535, 65536, 65537, 69632, 100000,
    131071, 131072, 131073, 200000,
];

pub fn interesting_offsets(size: u64) -> Vec<u64> {
    let mut v = vec![0u64, 1, 4095, 4096, 4097, 9999, 10000, 16383, 16384, 65535, 65536, size / 2];
    for d in [1u64, 2, 4096, 4097, 10000, 16384, 16385, 65536, 65537] {
        if size >= d {
            v.push(size - d);
        }
    }
    v.retain(|o| *o < size);
    v.sort();
    v.dedup();
    v
}

pub fn size_strategy(boundary: bool, max: u64) -> BoxedStrategy<u64> {
    if boundary {
        let sizes: Vec<u64> = BOUNDARY_SIZES.iter().copied().filter(|s| *s <= max).collect();
        prop_oneof![
            5 => (0u16..u16::MAX).prop_map(move |i| sizes[pick(i, sizes.len())]),
            1 => 0u64..300,
        ]
        .boxed()
    } else {
        prop_oneof![4 => 1u64..40, 1 => Just(0u64), 1 => 40u64..max.max(41)].boxed()
    }
}

pub fn content_strategy(classes: u32, boundary: bool, max: u64) -> BoxedStrategy<Content> {
    (0..classes.max(1), size_strategy(boundary, max), prop::option::weighted(0.4, 0u16..u16::MAX))
        .prop_map(|(class, size, flip)| {
            let flip = flip.and_then(|f| {
                if size == 0 {
                    None
                } else {
                    let offs = interesting_offsets(size);
                    Some(offs[pick(f, offs.len())])
                }
            });
            Content { class, size, flip }
        })
        .boxed()
}

pub const PLAIN_NAMES: [&str; 14] = ["a", "b", "c", "d", "e", "f1", "f2", "g", "x", "y", "zz", "w0", "ab", "abc"];

pub const HOSTILE_NAMES: [&[u8]; 40] = [
    b" x",
    b"x ",
    b"x",
    b"x\t",
    b"\tx",
    "\u{a0}x".as_bytes(),
    "x\u{a0}".as_bytes(),
    "x\u{3000}".as_bytes(),
    "\u{2003}x".as_bytes(),
    b"a\nb",
    b"a\rb",
    b"a",
    b"it's",
    b"q\"q",
    b"b\\s",
    b"b\\",
    b"\\n",
    b"$HOME",
    b"`id`",
    b"*",
    b"?",
    b"[a]",
    b"#c",
    b"~",
    b"~x",
    b"-rf",
    b"a b",
    "ż".as_bytes(),
    "😀".as_bytes(),
    b"\xff",
    b"a\x80b",
    b"\x7f",
    b"\x01",
    b"x  ",
    b"  ",
    b"a,b",
    b"a:b",
    b"a=b",
    b"x\n",
    b"\nx",
];

pub const META_NAMES: [&str; 14] = ["a.b", "a-b", "a+b", "(a)", "{a}", "a|b", "^a", "a$", "[ab]", "ż", "a b", "v-1", "x.y.z", "Ab"];

#[derive(Clone, Debug, PartialEq, Eq)]
pub enum Names {
    Plain,
    Hostile,
    Meta,
}

pub fn name_strategy(names: Names) -> BoxedStrategy<B> {
    match names {
        Names::Plain => (0u16..u16::MAX).prop_map(|i| B::s(PLAIN_NAMES[pick(i, PLAIN_NAMES.len())])).boxed(),
        Names::Hostile => prop_oneof![
            6 => (0u16..u16::MAX).prop_map(|i| B(HOSTILE_NAMES[pick(i, HOSTILE_NAMES.len())].to_vec())),
            2 => ((0u16..u16::MAX), (0u16..u16::MAX)).prop_map(|(i, j)| {
                let mut v = HOSTILE_NAMES[pick(i, HOSTILE_NAMES.len())].to_vec();
                v.extend_from_slice(HOSTILE_NAMES[pick(j, HOSTILE_NAMES.len())]);
                B(v)
            }),
            2 => (0u16..u16::MAX).prop_map(|i| B::s(PLAIN_NAMES[pick(i, PLAIN_NAMES.len())])),
        ]
        .boxed(),
        Names::Meta => prop_oneof![
            3 => (0u16..u16::MAX).prop_map(|i| B::s(META_NAMES[pick(i, META_NAMES.len())])),
            2 => (0u16..u16::MAX).prop_map(|i| B::s(PLAIN_NAMES[pick(i, PLAIN_NAMES.len())])),
        ]
        .boxed(),
    }
}

#[derive(Clone, Debug)]
pub struct Profile {
    pub names: Names,
    pub dir_names: Names,
    pub roots: usize,
    pub max_depth: usize,
    pub files: (usize, usize),
    pub classes: u32,
    pub boundary_sizes: bool,
    pub max_size: u64,
    pub hardlinks: u32,
    pub symlinks: u32,
    pub near_dup_pairs: usize,
    /// weight of entries whose path re-splits the components of an earlier file path
    /// (same concatenated bytes, different component boundaries)
    pub resplit: u32,
}

impl Profile {
    pub fn plain() -> Profile {
        Profile {
            names: Names::Plain,
            dir_names: Names::Plain,
            roots: 1,
            max_depth: 2,
            files: (3, 12),
            classes: 3,
            boundary_sizes: true,
            max_size: 200_000,
            hardlinks: 1,
            symlinks: 0,
            near_dup_pairs: 1,
            resplit: 1,
        }
    }
}

/// Root directory names; deliberately some are string prefixes of others (r0, r0x, r0xy).
pub const ROOT_NAMES: [&str; 4] = ["r0", "r0x", "r1", "r0xy"];

fn root_name(i: usize) -> B {
    B::s(ROOT_NAMES[i % ROOT_NAMES.len()])
}

/// A path `r<k>/<dirs…>/<name>`; files get a numeric suffix to reduce clashes.
fn path_strategy(p: &Profile) -> BoxedStrategy<Vec<B>> {
    let roots = p.roots.max(1);
    (
        0..roots,
        proptest::collection::vec(name_strategy(p.dir_names.clone()), 0..=p.max_depth),
        name_strategy(p.names.clone()),
    )
        .prop_map(|(r, dirs, name)| {
            let mut v = vec![root_name(r)];
            v.extend(dirs);
            v.push(name);
            v
        })
        .boxed()
}

#[derive(Clone, Debug)]
enum Proto {
    Palette(u16),
    Fresh(Content),
    Hardlink(u16),
    Symlink(u16, LinkStyle),
    Resplit(u16, u16, bool),
}

/// Same bytes, different component boundaries: merges two adjacent components or splits one.
fn resplit_path(path: &[B], cut: u16) -> Option<Vec<B>> {
    if path.len() < 2 {
        return None;
    }
    let comps = &path[1..];
    let mut options: Vec<Vec<B>> = vec![];
    for i in 0..comps.len().saturating_sub(1) {
        let mut v: Vec<B> = comps.to_vec();
        let mut m = v[i].0.clone();
        m.extend_from_slice(&v[i + 1].0);
        v[i] = B(m);
        v.remove(i + 1);
        options.push(v);
    }
    for i in 0..comps.len() {
        let c = &comps[i].0;
        // split only at ASCII boundaries to keep names valid
        for k in 1..c.len() {
            if c[k - 1] < 0x80 && c[k] < 0x80 {
                let mut v: Vec<B> = comps.to_vec();
                v[i] = B(c[..k].to_vec());
                v.insert(i + 1, B(c[k..].to_vec()));
                options.push(v);
            }
        }
    }
    if options.is_empty() {
        return None;
    }
    let mut out = vec![path[0].clone()];
    out.extend(options[pick(cut, options.len())].clone());
    Some(out)
}

pub fn tree_strategy(p: &Profile) -> BoxedStrategy<TreeSpec> {
    let content = content_strategy(p.classes, p.boundary_sizes, p.max_size);
    let mut alts: Vec<(u32, BoxedStrategy<Proto>)> = vec![
        (8, (0u16..u16::MAX).prop_map(Proto::Palette).boxed()),
        (2, content.clone().prop_map(Proto::Fresh).boxed()),
    ];
    if p.hardlinks > 0 {
        alts.push((p.hardlinks, (0u16..u16::MAX).prop_map(Proto::Hardlink).boxed()));
    }
    if p.symlinks > 0 {
        alts.push((
            p.symlinks,
            ((0u16..u16::MAX), prop_oneof![
                4 => Just(LinkStyle::Relative), 3 => Just(LinkStyle::Absolute), 1 => Just(LinkStyle::Dangling), 1 => Just(LinkStyle::SelfCycle)
            ])
                .prop_map(|(s, st)| Proto::Symlink(s, st))
                .boxed(),
        ));
    }
    if p.resplit > 0 {
        alts.push((p.resplit, ((0u16..u16::MAX), (0u16..u16::MAX), any::<bool>()).prop_map(|(a, b, c)| Proto::Resplit(a, b, c)).boxed()));
    }
    let kind = proptest::strategy::Union::new_weighted(alts);
    let entry = (path_strategy(p), kind, 0u32..5000);
    let near = (path_strategy(p), path_strategy(p), content.clone(), 0u16..u16::MAX, 0u32..5000);
    let n_near = p.near_dup_pairs;
    let roots = p.roots.max(1);
    (
        proptest::collection::vec(content, 1..5),
        proptest::collection::vec(entry, p.files.0..=p.files.1),
        proptest::collection::vec(near, n_near..=n_near),
    )
        .prop_map(move |(palette, protos, nears)| {
            // roots always exist as directories
            let mut all: Vec<Entry> = (0..roots).map(|r| Entry { path: vec![root_name(r)], kind: Kind::Dir, mtime: 0 }).collect();
            for (path, proto, mtime) in protos {
                if let Proto::Resplit(sel, cut, hard) = proto {
                    // re-split the path of an earlier file entry
                    let files: Vec<usize> = all
                        .iter()
                        .enumerate()
                        .filter(|(_, e)| matches!(e.kind, Kind::File(_)) && e.path.len() >= 2)
                        .map(|(i, _)| i)
                        .collect();
                    if !files.is_empty() {
                        let src = all[files[pick(sel, files.len())]].clone();
                        if let Some(np) = resplit_path(&src.path, cut) {
                            let kind = if hard { Kind::HardlinkOf(src.path.clone()) } else { src.kind.clone() };
                            all.push(Entry { path: np, kind, mtime });
                            continue;
                        }
                    }
                    all.push(Entry { path, kind: Kind::Hardlink(sel), mtime });
                    continue;
                }
                let kind = match proto {
                    Proto::Palette(s) => Kind::File(palette[pick(s, palette.len())].clone()),
                    Proto::Fresh(c) => Kind::File(c),
                    Proto::Hardlink(s) => Kind::Hardlink(s),
                    Proto::Symlink(s, st) => Kind::Symlink(s, st),
                    Proto::Resplit(..) => unreachable!(),
                };
                all.push(Entry { path, kind, mtime });
            }
            // near-duplicate pairs: same class and size, differing in one byte at an interesting offset
            for (p1, p2, c, f, m) in nears {
                let mut c1 = c.clone();
                c1.flip = None;
                let mut c2 = c.clone();
                if c.size > 0 {
                    let offs = interesting_offsets(c.size);
                    c2.flip = Some(offs[pick(f, offs.len())]);
                }
                all.push(Entry { path: p1, kind: Kind::File(c1), mtime: m });
                all.push(Entry { path: p2, kind: Kind::File(c2), mtime: m });
            }
            TreeSpec { entries: all }
        })
        .boxed()
}
