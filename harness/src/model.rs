//! Reference models written from the documentation (README, --help), not from the code:
//! reference walk / selection, content partition, replica counting.

use crate::snap::*;
use crate::util::*;
use std::collections::{BTreeMap, BTreeSet};
use std::path::{Path, PathBuf};
use std::sync::Arc;

#[derive(Clone, Debug)]
pub struct SelFile {
    /// absolute path under which fclones is expected to list the file
    pub path: Vec<u8>,
    /// identity as seen through stat (a reported symlink shares the id of its target)
    pub id: (u64, u64),
    pub bytes: Arc<Vec<u8>>,
}

#[derive(Clone, Debug, Default)]
pub struct WalkOpts {
    pub depth: Option<usize>,
    pub hidden: bool,
    pub follow_links: bool,
    pub symbolic_links: bool,
    pub min_size: u64,
    pub max_size: Option<u64>,
    /// restrict to this device when set (--one-fs): device of each root is used
    pub one_fs: bool,
}

fn is_hidden(name: &[u8]) -> bool {
    name.first() == Some(&b'.')
}

fn realpath(p: &Path) -> Option<PathBuf> {
    std::fs::canonicalize(p).ok()
}

/// The reference walk over the real file system (lstat/readdir from the harness).
/// `roots` are the input paths as the user gave them, already made absolute (lexically).
/// `ignored`: callback deciding whether an entry is excluded by ignore files (C09 supplies it).
pub fn reference_walk(
    roots: &[PathBuf],
    o: &WalkOpts,
    ignored: &dyn Fn(&Path, &Path, bool) -> bool,
    select: &dyn Fn(&Path) -> bool,
) -> Vec<SelFile> {
    let mut out: BTreeMap<Vec<u8>, SelFile> = BTreeMap::new();
    let mut visited: BTreeSet<(PathBuf, usize)> = BTreeSet::new();
    for r in roots {
        // a root is canonicalised; for a file root only its parent is
        let meta = match std::fs::metadata(r) {
            Ok(m) => m,
            Err(_) => continue,
        };
        let root = if meta.is_file() {
            match (r.parent().and_then(realpath), r.file_name()) {
                (Some(p), Some(n)) => p.join(n),
                _ => continue,
            }
        } else {
            match realpath(r) {
                Some(p) => p,
                None => continue,
            }
        };
        if meta.is_dir() && o.depth == Some(0) {
            continue;
        }
        let dev = {
            use std::os::unix::fs::MetadataExt;
            meta.dev()
        };
        // directories entered are remembered per walk (symlink cycles); which route reaches a
        // directory first must not matter, so the set is keyed by (directory, level)
        visit(&root, &root, 0, dev, o, ignored, select, &mut visited, &mut out);
    }
    out.into_values().collect()
}

#[allow(clippy::too_many_arguments)]
fn visit(
    root: &Path,
    p: &Path,
    level: usize,
    dev: u64,
    o: &WalkOpts,
    ignored: &dyn Fn(&Path, &Path, bool) -> bool,
    select: &dyn Fn(&Path) -> bool,
    visited: &mut BTreeSet<(PathBuf, usize)>,
    out: &mut BTreeMap<Vec<u8>, SelFile>,
) {
    use std::os::unix::fs::MetadataExt;
    let Ok(lm) = std::fs::symlink_metadata(p) else { return };
    if !o.hidden {
        if let Some(n) = p.file_name() {
            if is_hidden(&crate::run::os_bytes(n)) {
                return;
            }
        }
    }
    if ignored(root, p, lm.is_dir()) {
        return;
    }
    let ft = lm.file_type();
    if ft.is_file() {
        add_file(p, o, select, out);
    } else if ft.is_dir() {
        if let Some(d) = o.depth {
            // a directory at level l is entered iff l < depth
            if level >= d {
                return;
            }
        }
        if o.one_fs && lm.dev() != dev {
            return;
        }
        // a directory is listed at most once per level it is reached at (terminates on cycles:
        // levels only grow along a route and are bounded by the depth or by the path length limit)
        if o.follow_links && (!visited.insert((p.to_path_buf(), level)) || level > 64) {
            return;
        }
        let Ok(rd) = std::fs::read_dir(p) else { return };
        let mut names: Vec<PathBuf> = rd.filter_map(|e| e.ok()).map(|e| e.path()).collect();
        names.sort();
        for n in names {
            visit(root, &n, level + 1, dev, o, ignored, select, visited, out);
        }
    } else if ft.is_symlink() {
        if !o.follow_links && !o.symbolic_links {
            return;
        }
        let Ok(tm) = std::fs::metadata(p) else { return }; // dangling or cyclic: skipped
        if tm.is_file() && o.symbolic_links {
            add_file(p, o, select, out);
        } else if o.follow_links {
            if o.one_fs && tm.dev() != dev {
                return;
            }
            // one hop at a time: every entry on the way (also an intermediate link) is an entry
            // that is visited, so e.g. the hidden-name rule applies to it
            let Ok(link) = std::fs::read_link(p) else { return };
            let next = if link.is_absolute() { link } else { p.parent().map(|d| d.join(&link)).unwrap_or(link) };
            if tm.is_file() {
                // a file (or a further link to one): its directory made canonical, its own name kept
                if let (Some(parent), Some(name)) = (next.parent().and_then(realpath), next.file_name()) {
                    visit(root, &parent.join(name), level, dev, o, ignored, select, visited, out);
                }
            } else if tm.is_dir() {
                if let Some(t) = realpath(&next) {
                    visit(root, &t, level, dev, o, ignored, select, visited, out);
                }
            }
        }
    }
}

fn add_file(p: &Path, o: &WalkOpts, select: &dyn Fn(&Path) -> bool, out: &mut BTreeMap<Vec<u8>, SelFile>) {
    use std::os::unix::fs::MetadataExt;
    let Ok(m) = std::fs::metadata(p) else { return };
    if m.len() < o.min_size || o.max_size.map(|x| m.len() > x).unwrap_or(false) {
        return;
    }
    if !select(p) {
        return;
    }
    let Ok(bytes) = std::fs::read(p) else { return };
    let key = path_bytes(p);
    out.entry(key.clone()).or_insert(SelFile { path: key, id: (m.dev(), m.ino()), bytes: Arc::new(bytes) });
}

#[derive(Clone, Debug, PartialEq, Eq)]
pub enum Rf {
    Default,
    Over(usize),
    Under(usize),
    Unique,
}

#[derive(Clone, Debug)]
pub struct Counting {
    pub rf: Rf,
    pub match_links: bool,
    /// canonical roots in argument order when --isolate is set
    pub isolate_roots: Option<Vec<PathBuf>>,
}

fn is_prefix(root: &Path, p: &Path) -> bool {
    p.starts_with(root)
}

/// Replica count of one content class, by the documented rule.
pub fn replica_count(files: &[&SelFile], c: &Counting) -> usize {
    if let Some(roots) = &c.isolate_roots {
        let mut used: BTreeSet<usize> = BTreeSet::new();
        let mut outside: BTreeSet<(u64, u64)> = BTreeSet::new();
        let mut outside_paths = 0;
        for f in files {
            let p = bytes_path(&f.path);
            match roots.iter().position(|r| is_prefix(r, &p)) {
                Some(i) => {
                    used.insert(i);
                }
                None => {
                    outside.insert(f.id);
                    outside_paths += 1;
                }
            }
        }
        used.len() + if c.match_links { outside_paths } else { outside.len() }
    } else if c.match_links {
        files.len()
    } else {
        files.iter().map(|f| f.id).collect::<BTreeSet<_>>().len()
    }
}

pub fn is_reported(count: usize, rf: &Rf) -> bool {
    match rf {
        Rf::Default => count > 1,
        Rf::Over(k) => count > *k,
        Rf::Under(k) => count < *k,
        Rf::Unique => count < 2,
    }
}

#[derive(Clone, Debug, PartialEq, Eq, PartialOrd, Ord)]
pub struct ExpGroup {
    pub len: u64,
    pub paths: Vec<Vec<u8>>,
}

/// Expected groups: content classes (by exact bytes of `content(f)`) that satisfy the filter,
/// each with all its paths. Returns (reported, not_reported).
pub fn expected_groups(
    files: &[SelFile],
    content: &dyn Fn(&SelFile) -> Arc<Vec<u8>>,
    c: &Counting,
) -> (Vec<ExpGroup>, Vec<ExpGroup>) {
    let mut classes: BTreeMap<Arc<Vec<u8>>, Vec<&SelFile>> = BTreeMap::new();
    for f in files {
        classes.entry(content(f)).or_default().push(f);
    }
    let mut rep = vec![];
    let mut not = vec![];
    for (bytes, members) in classes {
        let count = replica_count(&members, c);
        let mut paths: Vec<Vec<u8>> = members.iter().map(|m| m.path.clone()).collect();
        paths.sort();
        let g = ExpGroup { len: bytes.len() as u64, paths };
        if is_reported(count, &c.rf) {
            rep.push(g);
        } else {
            not.push(g);
        }
    }
    rep.sort();
    not.sort();
    (rep, not)
}
