//! Inventory of a directory tree: an lstat walk independent of fclones, including file bytes.

use crate::util::*;
use std::collections::{BTreeMap, BTreeSet};
use std::os::unix::fs::MetadataExt;
use std::path::{Path, PathBuf};
use std::sync::Arc;

#[derive(Clone, Debug, PartialEq, Eq)]
pub enum NodeKind {
    File,
    Dir,
    Symlink(Vec<u8>),
    Other,
}

#[derive(Clone, Debug)]
pub struct Node {
    pub kind: NodeKind,
    pub dev: u64,
    pub ino: u64,
    pub nlink: u64,
    pub mode: u32,
    pub size: u64,
    pub mtime_ns: i128,
    pub bytes: Option<Arc<Vec<u8>>>,
}

impl Node {
    pub fn is_file(&self) -> bool {
        self.kind == NodeKind::File
    }
    pub fn id(&self) -> (u64, u64) {
        (self.dev, self.ino)
    }
}

#[derive(Clone, Debug, Default)]
pub struct Snapshot {
    /// absolute path bytes -> node
    pub nodes: BTreeMap<Vec<u8>, Node>,
}

impl Snapshot {
    pub fn take(roots: &[&Path]) -> Snapshot {
        let mut s = Snapshot::default();
        let mut by_id: BTreeMap<(u64, u64), Arc<Vec<u8>>> = BTreeMap::new();
        for r in roots {
            s.walk(r, &mut by_id);
        }
        s
    }

    fn walk(&mut self, p: &Path, by_id: &mut BTreeMap<(u64, u64), Arc<Vec<u8>>>) {
        let Ok(m) = std::fs::symlink_metadata(p) else { return };
        let ft = m.file_type();
        let kind = if ft.is_symlink() {
            NodeKind::Symlink(std::fs::read_link(p).map(|t| path_bytes(&t)).unwrap_or_default())
        } else if ft.is_file() {
            NodeKind::File
        } else if ft.is_dir() {
            NodeKind::Dir
        } else {
            NodeKind::Other
        };
        let bytes = if kind == NodeKind::File {
            let id = (m.dev(), m.ino());
            if let Some(b) = by_id.get(&id) {
                Some(b.clone())
            } else {
                let b = Arc::new(std::fs::read(p).unwrap_or_default());
                by_id.insert(id, b.clone());
                Some(b)
            }
        } else {
            None
        };
        let node = Node {
            kind: kind.clone(),
            dev: m.dev(),
            ino: m.ino(),
            nlink: m.nlink(),
            mode: m.mode(),
            size: m.len(),
            mtime_ns: m.mtime() as i128 * 1_000_000_000 + m.mtime_nsec() as i128,
            bytes,
        };
        self.nodes.insert(path_bytes(p), node);
        if kind == NodeKind::Dir {
            if let Ok(rd) = std::fs::read_dir(p) {
                let mut names: Vec<PathBuf> = rd.filter_map(|e| e.ok()).map(|e| e.path()).collect();
                names.sort();
                for n in names {
                    self.walk(&n, by_id);
                }
            }
        }
    }

    pub fn get(&self, p: &[u8]) -> Option<&Node> {
        self.nodes.get(p)
    }

    pub fn files(&self) -> impl Iterator<Item = (&Vec<u8>, &Node)> {
        self.nodes.iter().filter(|(_, n)| n.is_file())
    }

    /// Set of distinct byte strings stored in regular files.
    pub fn content_inventory(&self) -> BTreeSet<Arc<Vec<u8>>> {
        self.files().filter_map(|(_, n)| n.bytes.clone()).collect()
    }

    /// Bytes obtained by opening the path (following symlinks), as a user would read it.
    pub fn read_through(&self, p: &[u8]) -> Option<Arc<Vec<u8>>> {
        let mut cur = p.to_vec();
        for _ in 0..40 {
            match self.nodes.get(&cur) {
                Some(n) => match &n.kind {
                    NodeKind::File => return n.bytes.clone(),
                    NodeKind::Symlink(t) => {
                        let base = bytes_path(&cur);
                        let t = bytes_path(t);
                        let next = if t.is_absolute() { t } else { base.parent()?.join(t) };
                        cur = path_bytes(&normalize(&next));
                    }
                    _ => return None,
                },
                None => {
                    // target outside the snapshot: read from disk
                    return std::fs::read(bytes_path(&cur)).ok().map(Arc::new);
                }
            }
        }
        None
    }
}

/// Lexical normalization (removes `.` and resolves `..`); good enough for harness-made trees
/// where `..` never crosses a symlink.
pub fn normalize(p: &Path) -> PathBuf {
    let mut out = PathBuf::new();
    for c in p.components() {
        match c {
            std::path::Component::ParentDir => {
                out.pop();
            }
            std::path::Component::CurDir => {}
            c => out.push(c.as_os_str()),
        }
    }
    out
}

/// True when the node at `p` is the same object with the same bytes and mtime in both snapshots.
pub fn untouched(before: &Snapshot, after: &Snapshot, p: &[u8]) -> bool {
    match (before.get(p), after.get(p)) {
        (Some(a), Some(b)) => {
            a.kind == b.kind
                && a.dev == b.dev
                && a.ino == b.ino
                && a.bytes == b.bytes
                && (a.kind != NodeKind::File || a.mtime_ns == b.mtime_ns)
                && (a.mode == b.mode)
        }
        _ => false,
    }
}

#[derive(Debug, Clone)]
pub struct Diff {
    pub removed: Vec<Vec<u8>>,
    pub added: Vec<Vec<u8>>,
    pub changed: Vec<Vec<u8>>,
}

impl Diff {
    pub fn is_empty(&self) -> bool {
        self.removed.is_empty() && self.added.is_empty() && self.changed.is_empty()
    }
    pub fn describe(&self) -> String {
        let f = |v: &Vec<Vec<u8>>| v.iter().map(|p| esc(p)).collect::<Vec<_>>().join(", ");
        format!("removed=[{}] added=[{}] changed=[{}]", f(&self.removed), f(&self.added), f(&self.changed))
    }
}

/// Differences between two snapshots. Directory mtimes (and nlink of directories) are ignored.
/// `strict_links`: also report a change of nlink of regular files.
pub fn diff(before: &Snapshot, after: &Snapshot, strict_links: bool) -> Diff {
    let mut d = Diff { removed: vec![], added: vec![], changed: vec![] };
    for (p, a) in &before.nodes {
        match after.nodes.get(p) {
            None => d.removed.push(p.clone()),
            Some(b) => {
                let same = a.kind == b.kind
                    && a.dev == b.dev
                    && a.ino == b.ino
                    && a.mode == b.mode
                    && (a.kind == NodeKind::Dir
                        || (a.bytes == b.bytes && a.size == b.size && (a.kind != NodeKind::File || a.mtime_ns == b.mtime_ns)))
                    && (!strict_links || a.kind != NodeKind::File || a.nlink == b.nlink);
                if !same {
                    d.changed.push(p.clone());
                }
            }
        }
    }
    for p in after.nodes.keys() {
        if !before.nodes.contains_key(p) {
            d.added.push(p.clone());
        }
    }
    d
}
