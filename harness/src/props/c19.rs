//! C19 The task/open-file semaphore is safe and live under all interleavings.
//! The real semaphore.rs is compiled against shuttle's synchronisation primitives (build.rs);
//! the schedule is the generated input.

use crate::common::*;
use proptest::prelude::*;
use serde::{Deserialize, Serialize};
use serde_json::json;
use std::panic::{catch_unwind, AssertUnwindSafe};
use std::sync::atomic::{AtomicBool, AtomicIsize, AtomicU64, Ordering};

#[allow(dead_code, unused_imports, clippy::all)]
mod sem {
    include!(concat!(env!("OUT_DIR"), "/semaphore_shuttle.rs"));

    /// An unsolicited notification: observationally a spurious wake-up for the waiters.
    pub fn chaos_notify(s: &Semaphore, all: bool) {
        verif_notify(s, all)
    }
    /// The internal permit counter, when the private representation is still a plain `Mutex<isize>`.
    pub fn count(s: &Semaphore) -> Option<isize> {
        verif_count(s)
    }
}

#[derive(Clone, Debug, Serialize, Deserialize, PartialEq)]
pub enum Step {
    /// acquire … release on the same thread (borrowed guard)
    Pair,
    /// acquire an owned guard and hand it to the dropper thread, which releases it
    HandOff,
    /// release without a preceding acquire (raises the number of permits)
    ReleaseOnly,
}

#[derive(Clone, Debug, Serialize, Deserialize)]
pub struct Program {
    pub initial: u8,
    pub threads: Vec<Vec<Step>>,
    /// extra notifications: true = notify_all
    pub chaos: Vec<bool>,
}

#[derive(Clone, Debug, Serialize, Deserialize)]
pub struct C19Case {
    pub program: Program,
    /// scheduler: 0 random, 1 PCT(depth 3), 2 DFS
    pub scheduler: u8,
    pub seed: u64,
    pub iterations: u32,
}

fn program_strategy() -> BoxedStrategy<Program> {
    let step = prop_oneof![4 => Just(Step::Pair), 3 => Just(Step::HandOff), 1 => Just(Step::ReleaseOnly)];
    (0u8..=2, proptest::collection::vec(proptest::collection::vec(step, 1..=3), 2..=4), proptest::collection::vec(any::<bool>(), 0..=3))
        .prop_map(|(initial, mut threads, chaos)| {
            // the abstract counting semaphore must not deadlock: with no initial permit the first
            // thread starts with an unconditional release
            if initial == 0 {
                threads[0].insert(0, Step::ReleaseOnly);
            }
            Program { initial, threads, chaos }
        })
        .boxed()
}

struct Observed {
    over_admission: AtomicBool,
    blocked_probably: AtomicBool,
    final_count_wrong: AtomicIsize,
}

/// One execution of the program under the shuttle scheduler in force.
fn execute(p: &Program, obs: &std::sync::Arc<Observed>) {
    use shuttle::sync::{mpsc, Arc};
    use shuttle::thread;
    let sem = Arc::new(sem::Semaphore::new(p.initial as isize));
    let holders = Arc::new(AtomicIsize::new(0));
    let capacity = Arc::new(AtomicIsize::new(p.initial as isize));
    let (tx, rx) = mpsc::channel::<sem::OwnedSemaphoreGuard>();
    let handoffs: usize = p.threads.iter().flatten().filter(|s| **s == Step::HandOff).count();
    let releases: isize = p.threads.iter().flatten().filter(|s| **s == Step::ReleaseOnly).count() as isize;
    let mut joins = vec![];
    {
        let holders = holders.clone();
        joins.push(thread::spawn(move || {
            for _ in 0..handoffs {
                let g = rx.recv().unwrap();
                holders.fetch_sub(1, Ordering::SeqCst);
                drop(g);
            }
        }));
    }
    for steps in p.threads.iter().cloned() {
        let sem = sem.clone();
        let holders = holders.clone();
        let capacity = capacity.clone();
        let tx = tx.clone();
        let obs = obs.clone();
        joins.push(thread::spawn(move || {
            for s in steps {
                match s {
                    Step::Pair => {
                        if sem::count(&sem).map(|c| c <= 0).unwrap_or_else(|| holders.load(Ordering::SeqCst) >= capacity.load(Ordering::SeqCst)) {
                            obs.blocked_probably.store(true, Ordering::Relaxed);
                        }
                        let g = sem.access();
                        let h = holders.fetch_add(1, Ordering::SeqCst) + 1;
                        if h > capacity.load(Ordering::SeqCst) {
                            obs.over_admission.store(true, Ordering::SeqCst);
                        }
                        thread::yield_now();
                        holders.fetch_sub(1, Ordering::SeqCst);
                        drop(g);
                    }
                    Step::HandOff => {
                        if sem::count(&sem).map(|c| c <= 0).unwrap_or_else(|| holders.load(Ordering::SeqCst) >= capacity.load(Ordering::SeqCst)) {
                            obs.blocked_probably.store(true, Ordering::Relaxed);
                        }
                        let g = sem.clone().access_owned();
                        let h = holders.fetch_add(1, Ordering::SeqCst) + 1;
                        if h > capacity.load(Ordering::SeqCst) {
                            obs.over_admission.store(true, Ordering::SeqCst);
                        }
                        tx.send(g).unwrap();
                    }
                    Step::ReleaseOnly => {
                        capacity.fetch_add(1, Ordering::SeqCst);
                        sem.release();
                    }
                }
            }
        }));
    }
    {
        let sem = sem.clone();
        let chaos = p.chaos.clone();
        joins.push(thread::spawn(move || {
            for all in chaos {
                sem::chaos_notify(&sem, all);
                thread::yield_now();
            }
        }));
    }
    drop(tx);
    for j in joins {
        j.join().unwrap();
    }
    let want = p.initial as isize + releases;
    assert!(!obs.over_admission.load(Ordering::SeqCst), "more holders than permits");
    if let Some(fin) = sem::count(&sem) {
        if fin != want {
            obs.final_count_wrong.store(fin - want, Ordering::SeqCst);
        }
        assert!(fin == want, "permit count after all guards were dropped is {} instead of {}", fin, want);
    }
    // black box: all `want` permits can be taken again without anybody releasing (a lost permit or a lost
    // wake-up makes this block for ever, which shuttle reports as a deadlock)
    let mut again = vec![];
    for _ in 0..want.max(0) {
        again.push(sem.clone().access_owned());
    }
    drop(again);
}

static SCHEDULES: AtomicU64 = AtomicU64::new(0);
static BLOCKING_SCHEDULES: AtomicU64 = AtomicU64::new(0);

pub fn run_case(c: &C19Case, _n: u64) -> Verdict {
    let obs = std::sync::Arc::new(Observed { over_admission: AtomicBool::new(false), blocked_probably: AtomicBool::new(false), final_count_wrong: AtomicIsize::new(0) });
    let p = c.program.clone();
    let o2 = obs.clone();
    let iterations = c.iterations.max(1) as usize;
    let counted = std::sync::Arc::new(AtomicU64::new(0));
    let blocking = std::sync::Arc::new(AtomicU64::new(0));
    let (cn, bl) = (counted.clone(), blocking.clone());
    let body = move || {
        o2.blocked_probably.store(false, Ordering::Relaxed);
        execute(&p, &o2);
        cn.fetch_add(1, Ordering::Relaxed);
        if o2.blocked_probably.load(Ordering::Relaxed) {
            bl.fetch_add(1, Ordering::Relaxed);
        }
    };
    let mut config = shuttle::Config::new();
    config.failure_persistence = shuttle::FailurePersistence::None;
    config.max_steps = shuttle::MaxSteps::FailAfter(20_000);
    let seed = c.seed;
    let sched = c.scheduler % 3;
    let result = catch_unwind(AssertUnwindSafe(move || match sched {
        0 => {
            let s = shuttle::scheduler::RandomScheduler::new_from_seed(seed, iterations);
            shuttle::Runner::new(s, config).run(body)
        }
        1 => {
            let s = shuttle::scheduler::PctScheduler::new_from_seed(seed, 3, iterations);
            shuttle::Runner::new(s, config).run(body)
        }
        _ => {
            let s = shuttle::scheduler::DfsScheduler::new(Some(iterations), false);
            shuttle::Runner::new(s, config).run(body)
        }
    }));
    SCHEDULES.fetch_add(counted.load(Ordering::Relaxed), Ordering::Relaxed);
    BLOCKING_SCHEDULES.fetch_add(blocking.load(Ordering::Relaxed), Ordering::Relaxed);
    match result {
        Ok(_) => Verdict::Pass { nontrivial: blocking.load(Ordering::Relaxed) > 0, classes: vec![format!("scheduler-{}", sched), format!("threads-{}", c.program.threads.len()), format!("initial-{}", c.program.initial)] },
        Err(e) => {
            let msg = e.downcast_ref::<String>().cloned().or_else(|| e.downcast_ref::<&str>().map(|s| s.to_string())).unwrap_or_else(|| "panic".into());
            let clause = if obs.over_admission.load(Ordering::SeqCst) {
                "over-admission"
            } else if msg.contains("deadlock") {
                "lost-wake-up-deadlock"
            } else if obs.final_count_wrong.load(Ordering::SeqCst) != 0 {
                "permits-not-restored"
            } else if msg.contains("exceeded max_steps") {
                "livelock"
            } else {
                "panic"
            };
            Verdict::Fail {
                clause: clause.into(),
                detail: format!("program {:?}\nscheduler {} seed {} iterations {} (failed after {} schedules)\n{}", c.program, sched, seed, iterations, counted.load(Ordering::Relaxed), msg.lines().take(6).collect::<Vec<_>>().join("\n")),
                sig: vec![],
            }
        }
    }
}

/// End-to-end use of the semaphore as the open-file budget: `files` identical files of 70 000 bytes
/// (two hashing stages) plus a few others, hashed by `threads`-thread pools while RLIMIT_NOFILE is
/// `nofile` (budget = nofile - 5 permits, fewer than the threads) and every read of a tree file sleeps
/// `delay_ms` (interposer), so that every worker keeps its file open for a while. The budget holds iff
/// no open fails with EMFILE: all files must be reported in one group and stderr must not mention
/// "Too many open files".
#[derive(Clone, Debug, Serialize, Deserialize)]
pub struct BudgetCase {
    pub budget_files: u32,
    pub threads: u32,
    pub nofile: u32,
    pub delay_ms: u32,
}

pub fn run_budget(c: &BudgetCase, n: u64) -> Verdict {
    use crate::run::*;
    if !std::path::Path::new(SHIM).exists() || !std::path::Path::new("/usr/bin/prlimit").exists() {
        return Verdict::Discard("no-shim-or-prlimit".into());
    }
    let cd = CaseDir::new("c19b", n, Fs::Tmpfs);
    let r = cd.tree().join("r");
    let _ = std::fs::create_dir_all(&r);
    let bytes = crate::util::class_bytes(5, 70_000);
    for i in 0..c.budget_files {
        let _ = std::fs::write(r.join(format!("f{:03}", i)), &bytes);
    }
    for i in 0..4u32 {
        let _ = std::fs::write(r.join(format!("other{}", i)), crate::util::class_bytes(6 + i, 70_000));
    }
    let a: Vec<std::ffi::OsString> = vec![format!("--nofile={0}:{0}", c.nofile).into(), FCLONES_BIN.into(), "group".into(), "--threads".into(), c.threads.to_string().into(), "r".into()];
    let run = Run::program(&cd, "/usr/bin/prlimit")
        .args(&a)
        .env("LD_PRELOAD", SHIM)
        .env("FCV_ROOT", cd.tree())
        .env("FCV_READ_DELAY_US", (c.delay_ms * 1000).to_string())
        .env("FCLONES_VERIF_DISK_KIND", "ssd");
    let cmd = format!("FCV_READ_DELAY_US={} prlimit --nofile={}:{} fclones group --threads {} r   ({} identical files)", c.delay_ms * 1000, c.nofile, c.nofile, c.threads, c.budget_files);
    let out = run.run();
    if out.timed_out {
        return Verdict::Inconclusive("timeout".into());
    }
    let listed = String::from_utf8_lossy(&out.stdout).lines().filter(|l| l.starts_with("    ") && l.contains("/r/f")).count() as u32;
    let emfile = out.stderr_s().contains("Too many open files");
    if !out.ok() || emfile || listed != c.budget_files {
        return Verdict::Fail {
            clause: "open-file-budget-exceeded".into(),
            detail: format!("{}\n{} of {} identical files reported; 'Too many open files' on stderr: {}\n{}", cmd, listed, c.budget_files, emfile, out.brief()),
            sig: vec![],
        };
    }
    Verdict::Pass { nontrivial: c.threads + 5 > c.nofile, classes: vec!["open-file-budget-end-to-end".into()] }
}

pub fn check(tier: Tier) -> i32 {
    let ctx = Ctx::new("C19", tier);
    std::panic::set_hook(Box::new(|_| {}));
    replay_corpus::<C19Case, _>(&ctx, run_case);
    let iters = tier.pick(400u32, 4000u32);
    let seed0 = ctx.seed;
    // random + PCT schedules for generated programs
    drive(
        &ctx,
        "random-pct",
        tier.pick(480, 3000),
        move || (program_strategy(), 0u8..2, any::<u64>()).prop_map(move |(program, scheduler, seed)| C19Case { program, scheduler, seed: seed ^ seed0, iterations: iters }),
        run_case,
    );
    // exhaustive DFS for the smallest configurations
    let small = || {
        let step = prop_oneof![Just(Step::Pair), Just(Step::HandOff), Just(Step::ReleaseOnly)];
        (0u8..=2, proptest::collection::vec(proptest::collection::vec(step, 1..=2), 2..=2), proptest::collection::vec(any::<bool>(), 0..=1)).prop_map(|(initial, mut threads, chaos)| {
            if initial == 0 {
                threads[0].insert(0, Step::ReleaseOnly);
            }
            C19Case { program: Program { initial, threads, chaos }, scheduler: 2, seed: 0, iterations: 200_000 }
        })
    };
    drive(&ctx, "dfs", tier.pick(48, 300), small, run_case);
    // end to end: the same semaphore as the open-file budget of the real binary
    let budget: Vec<BudgetCase> = (0..tier.pick(4u32, 16u32)).map(|i| BudgetCase { budget_files: 120 + 10 * (i % 4), threads: 128, nofile: 80 + (i % 3) * 8, delay_ms: 25 + 10 * (i % 2) }).collect();
    drive_list(&ctx, budget, run_budget);
    ctx.set_extra("schedules_executed", json!(SCHEDULES.load(Ordering::Relaxed)));
    ctx.set_extra("schedules_with_a_probably_blocking_acquire", json!(BLOCKING_SCHEDULES.load(Ordering::Relaxed)));
    ctx.finish(
        "exploration",
        "the real fclones/src/semaphore.rs compiled against shuttle's Mutex/Condvar/Arc (harness/build.rs swaps the import line and fails the build if it is not found; probes into private fields are generated only when those fields exist). Generated programs: 0-2 initial permits, 2-4 threads with 1-3 steps each from {acquire..release on the same thread, acquire an owned guard and hand it to a dropper thread that releases it, release-only}, plus a chaos thread issuing 0-3 unsolicited notify_one/notify_all (observationally spurious wake-ups); programs are deadlock-free for the abstract counting semaphore by construction. Each program runs under 400 (quick) / 4000 (thorough) random or PCT(depth 3) schedules with a generated seed, and the 2-thread x <=2-step programs under exhaustive DFS (bounded at 200000 schedules). Oracle: at every return from acquire the number of holders is <= initial + releases-only so far; shuttle's deadlock detector never fires; after joining all threads the internal count equals initial + #release-only (white-box probe, generated by build.rs only while the private representation is `lock: Mutex<isize>`), and all those permits can be acquired again without anybody releasing (black box; works for any representation). evaluations = programs; schedules are counted in coverage.schedules_executed. Non-trivial = a program with a schedule in which an acquire found the count <= 0 (so it had to wait). End-to-end complement: the real binary hashes 120-150 identical 70 kB files with 128-thread pools under `prlimit --nofile=80..96` while every read of a tree file sleeps 25-35 ms (interposer): every file must be reported and no open may fail with EMFILE (the budget is nofile - 5 permits).",
        &["shuttle's Condvar does not produce spurious wake-ups by itself; unsolicited notifications stand in for them", "the instrumented copy is textually the pinned file except for the import line and the removed unit tests"],
    )
}

pub fn replay(file: &std::path::Path) -> i32 {
    if load_case::<BudgetCase>(file).is_some() {
        return replay_one::<BudgetCase, _>("C19", file, run_budget);
    }
    std::panic::set_hook(Box::new(|_| {}));
    replay_one::<C19Case, _>("C19", file, run_case)
}
