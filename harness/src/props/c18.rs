//! C18 `move` maps sources injectively and never overwrites.

use crate::common::*;
use crate::ded::*;
use crate::props::c20::intended_files;
use crate::run::*;
use crate::snap::*;
use crate::tree::*;
use crate::util::*;
use proptest::prelude::*;
use serde::{Deserialize, Serialize};
use std::collections::BTreeSet;
use std::path::PathBuf;

#[derive(Clone, Debug, Serialize, Deserialize, PartialEq, Eq)]
pub enum Pre {
    /// a regular file with other content exactly where a moved file would go
    CollidingFile,
    /// a directory exactly where a moved file would go
    DirAtTarget,
    /// a regular file where a parent directory of the destination is needed
    FileAtParent,
    /// a dangling symlink exactly where a moved file would go
    DanglingLink,
}

#[derive(Clone, Debug, Serialize, Deserialize)]
pub struct C18Case {
    pub d: DCase,
    /// pre-populated obstacles: (selector of an intended file, kind)
    pub pre: Vec<(u16, Pre)>,
    /// give DIR as a path relative to the working directory
    pub relative_dir: bool,
    /// injected failure: the k-th mutating libc call on the tree / DIR fails with this errno
    /// (index into FAULT_ERRNOS); the run then uses one worker thread so that k is reproducible
    #[serde(default)]
    pub fault: Option<(u8, u8)>,
    /// DIR is spelled `shelf/../dups` where `shelf` (in the working directory) is a symlink to a
    /// directory elsewhere: the OS resolves `..` against the link's target, not against its name
    #[serde(default)]
    pub dir_via_link: bool,
}

const FAULT_ERRNOS: [&str; 4] = ["EIO", "ENOSPC", "EPERM", "EINVAL"];

fn profile() -> ScenarioProfile {
    ScenarioProfile {
        names: Names::Hostile,
        dir_names: Names::Hostile,
        patterns: false,
        priorities: true,
        symlinks: false,
        match_links_ok: true,
        rf: true,
        ops: vec![Op::Move],
        files: (5, 14),
        hardlinks: 3,
    }
}

fn case_strategy() -> BoxedStrategy<C18Case> {
    let pre = (
        0u16..u16::MAX,
        prop_oneof![5 => Just(Pre::CollidingFile), 2 => Just(Pre::DirAtTarget), 2 => Just(Pre::FileAtParent), 1 => Just(Pre::DanglingLink)],
    );
    (dcase_strategy(profile()), proptest::collection::vec(pre, 0..3), prop::bool::weighted(0.3), prop::option::weighted(0.35, (1u8..25, 0u8..4)), prop::bool::weighted(0.12))
        .prop_map(|(mut d, pre, relative_dir, fault, dir_via_link)| {
            for p in d.dopts.priority.iter_mut() {
                if *p % 12 == 6 || *p % 12 == 7 {
                    *p = 0;
                }
            }
            C18Case { d, pre, relative_dir, fault, dir_via_link }
        })
        .boxed()
}

fn dest_of(target: &[u8], src: &[u8]) -> Vec<u8> {
    let mut v = target.to_vec();
    v.extend_from_slice(src);
    v
}

pub fn run_case(c: &C18Case, n: u64) -> Verdict {
    let d = &c.d;
    let g = build_and_group("c18", d, n, Fs::Tmpfs);
    let target = if c.dir_via_link {
        // <case>/store/archive is where `t/shelf` points; `shelf/../dups` therefore is <case>/store/dups
        let store = g.cd.base.join("store");
        let _ = std::fs::create_dir_all(store.join("archive"));
        let _ = std::os::unix::fs::symlink(store.join("archive"), g.cd.tree().join("shelf"));
        store.join("dups")
    } else {
        target_dir(&g.cd, d)
    };
    let _ = std::fs::create_dir_all(&target);
    let v = judge(c, &g, &target);
    if target.starts_with("/var/tmp/fcvw") {
        let _ = std::fs::remove_dir_all(&target);
    }
    v
}

fn judge(c: &C18Case, g: &Grouped, target: &PathBuf) -> Verdict {
    let d = &c.d;
    if g.group.timed_out {
        return Verdict::Inconclusive("timeout".into());
    }
    if !g.group.ok() {
        return Verdict::Discard("group-rejected".into());
    }
    let tree = g.cd.tree();
    let files = file_list(&g.built);
    let target_b = path_bytes(target);
    // intention from a dry run
    let (dry_args, _) = dedupe_args(d, &files, &g.canon_roots, target, true);
    let dry = Run::fclones(&g.cd).args(&dry_args).stdin(g.report_bytes.clone()).run();
    if !dry.ok() {
        if dry.crashed() {
            return Verdict::fail("dry-run-crash", dry.brief());
        }
        return Verdict::Discard("dedupe-rejected".into());
    }
    let intended = intended_files(&dry.stdout);
    // obstacles
    let mut obstacles = 0;
    for (sel, kind) in &c.pre {
        if intended.is_empty() {
            break;
        }
        let src = &intended[pick(*sel, intended.len())];
        let dest = bytes_path(&dest_of(&target_b, src));
        match kind {
            Pre::CollidingFile => {
                if let Some(p) = dest.parent() {
                    let _ = std::fs::create_dir_all(p);
                }
                if !dest.exists() && std::fs::write(&dest, b"pre-existing content, must survive").is_ok() {
                    obstacles += 1;
                }
            }
            Pre::DirAtTarget => {
                if std::fs::create_dir_all(&dest).is_ok() {
                    obstacles += 1;
                }
            }
            Pre::FileAtParent => {
                if let Some(p) = dest.parent() {
                    if let Some(pp) = p.parent() {
                        let _ = std::fs::create_dir_all(pp);
                    }
                    if !p.exists() && std::fs::write(p, b"a file where a directory is needed").is_ok() {
                        obstacles += 1;
                    }
                }
            }
            Pre::DanglingLink => {
                if let Some(p) = dest.parent() {
                    let _ = std::fs::create_dir_all(p);
                }
                if std::os::unix::fs::symlink("nowhere", &dest).is_ok() {
                    obstacles += 1;
                }
            }
        }
    }
    let before = Snapshot::take(&[&tree, target]);
    let mut dc = d.clone();
    dc.op = Op::Move;
    // a relative DIR names a place under the directory `fclones move` is started in
    let from_parent = !c.dir_via_link && c.relative_dir && d.move_target == 0 && d.tree.entries.len() % 2 == 0;
    let dir_arg: PathBuf = if c.dir_via_link {
        PathBuf::from("shelf/../dups")
    } else if from_parent {
        // relative to the working directory, which here is the parent of the tree root (and not the
        // base directory recorded in the report header)
        PathBuf::from("mv")
    } else if c.relative_dir && d.move_target < 2 {
        // relative to the working directory (= tree root)
        match d.move_target {
            1 => PathBuf::from(ROOT_NAMES[0]).join("moved_here"),
            _ => PathBuf::from("../mv"),
        }
    } else {
        target.clone()
    };
    let (args, _) = dedupe_args(&dc, &files, &g.canon_roots, &dir_arg, false);
    let mut run = Run::fclones(&g.cd).args(&args).stdin(g.report_bytes.clone());
    if from_parent {
        run = run.cwd(&g.cd.base);
    }
    if let Some((k, e)) = c.fault {
        run = run
            .env("LD_PRELOAD", SHIM)
            .env("FCV_ROOT", format!("{}:{}", tree.display(), target.display()))
            .env("FCV_LOG", g.cd.base.join("shim.log"))
            .env("FCV_FAULT", format!("{}:{}", k, FAULT_ERRNOS[e as usize % FAULT_ERRNOS.len()]))
            .env("RAYON_NUM_THREADS", "1");
    }
    let cmd = format!("{}\n{}{} < report", g.group_cmd, if from_parent { "cd .. && " } else { "" }, run.cmdline());
    let out = run.run();
    let injected = c.fault.is_some() && std::fs::read_to_string(g.cd.base.join("shim.log")).map(|l| l.contains("INJECTED")).unwrap_or(false);
    let after = Snapshot::take(&[&tree, target]);
    let sig = vec![if c.dir_via_link { "target-via-symlink-dotdot".to_string() } else { format!("target-{}", d.move_target) }, if from_parent { "relative-dir-from-parent".to_string() } else if c.relative_dir { "relative-dir".to_string() } else { "absolute-dir".to_string() }];
    let dd = diff(&before, &after, false);
    let fail = |clause: &str, detail: String| Verdict::Fail {
        clause: clause.into(),
        detail: format!("{}\n{}\nchanges: {}\n{}", cmd, detail, dd.describe(), out.brief()),
        sig: sig.clone(),
    };
    if out.timed_out {
        return Verdict::Inconclusive("timeout".into());
    }
    if out.crashed() {
        return fail("crash", String::new());
    }
    let under_target = |p: &Vec<u8>| p.starts_with(&target_b) && (p.len() == target_b.len() || p[target_b.len()] == b'/');
    // everything that existed under DIR before is untouched
    for (p, node) in before.nodes.iter() {
        if under_target(p) && p != &target_b {
            // when DIR is inside the scanned tree, files under DIR may themselves be group members; skip those
            if intended.contains(p) {
                continue;
            }
            let same = match (after.get(p), &node.kind) {
                (Some(a), NodeKind::Dir) => a.kind == NodeKind::Dir,
                (Some(_), _) => untouched(&before, &after, p),
                (None, _) => false,
            };
            if !same {
                return fail("pre-existing-entry-under-dir-altered", format!("{:?} existed under DIR before the run and was overwritten, replaced or removed", B(p.clone())));
            }
        }
    }
    // every source that disappeared has its bytes at DIR/<abs path>; nothing else changed in the tree
    let mut moved: BTreeSet<Vec<u8>> = BTreeSet::new();
    for p in dd.removed.iter() {
        if under_target(p) && !intended.contains(p) {
            continue;
        }
        let Some(node) = before.get(p) else { continue };
        if node.kind != NodeKind::File {
            return fail("non-file-removed", format!("{:?}", B(p.clone())));
        }
        let dest = dest_of(&target_b, p);
        let ok = after.get(&dest).map(|a| a.kind == NodeKind::File && a.bytes == node.bytes).unwrap_or(false);
        if !ok {
            return fail("source-gone-without-complete-target", format!("{:?} was removed but {:?} does not hold its bytes", B(p.clone()), B(dest)));
        }
        if before.get(&dest).is_some() {
            return fail("target-overwritten", format!("{:?} existed before and now holds the bytes of {:?}", B(dest), B(p.clone())));
        }
        moved.insert(p.clone());
    }
    for p in dd.changed.iter() {
        if before.get(p).map(|n| n.kind == NodeKind::Dir).unwrap_or(false) {
            continue;
        }
        return fail("file-altered-in-place", format!("{:?}", B(p.clone())));
    }
    // injectivity: number of new regular files under DIR == number of moved files
    let new_files: Vec<&Vec<u8>> = dd.added.iter().filter(|p| after.get(p).map(|n| n.kind == NodeKind::File).unwrap_or(false)).collect();
    for p in &dd.added {
        if !under_target(p) {
            return fail("stray-new-path", format!("{:?}", B((*p).clone())));
        }
    }
    // (after an injected failure an incomplete copy may be left under DIR; the statement does not forbid that)
    if new_files.len() != moved.len() && !injected {
        return fail("moved-count-mismatch", format!("{} sources moved, {} new regular files under DIR", moved.len(), new_files.len()));
    }
    // intended files that were not moved must be untouched, with a warning
    let mut not_moved = 0;
    for p in &intended {
        if !moved.contains(p) {
            if !untouched(&before, &after, p) {
                return fail("unmoved-source-altered", format!("{:?}", B(p.clone())));
            }
            not_moved += 1;
        }
    }
    if not_moved > 0 && !out.stderr_s().contains("warn") {
        return fail("no-warning-for-unmoved-file", format!("{} intended files were left in place silently", not_moved));
    }
    if obstacles == 0 && not_moved > 0 && !injected {
        return fail("file-not-moved-without-obstacle", format!("{} intended files left in place although nothing was in the way", not_moved));
    }
    let copy_fallback = d.move_target >= 2 && !moved.is_empty();
    let nontrivial = (obstacles > 0 && !intended.is_empty()) || copy_fallback || injected;
    let mut classes = sig.clone();
    if copy_fallback {
        classes.push("copy-fallback-cross-device".into());
    }
    if obstacles > 0 {
        classes.push("obstacles".into());
    }
    if injected {
        classes.push(if d.move_target >= 2 { "injected-failure-copy-path".into() } else { "injected-failure-rename-path".into() });
    }
    Verdict::Pass { nontrivial, classes }
}

pub fn check(tier: Tier) -> i32 {
    let ctx = Ctx::new("C18", tier);
    replay_corpus::<C18Case, _>(&ctx, run_case);
    drive(&ctx, "main", tier.pick(6000, 40000), case_strategy, run_case);
    cleanup_process_scratch();
    ctx.finish(
        "exploration",
        "proptest-generated scenarios (hostile file/dir names, hard links, priorities, -n, isolate) x `move DIR` with DIR outside the tree, inside the scanned tree or on the other device (tmpfs -> ext4: rename fails with EXDEV, copy fallback), absolute, relative to the tree root, relative to the parent of the tree root with `fclones move` started there (the report's base directory is the tree root) or spelled `shelf/../dups` through a symlink in the working directory, pre-populated with obstacles derived from a dry run: a colliding regular file, a directory at the destination, a file where a parent directory is needed, a dangling symlink; in a third of the cases the k-th (k = 1..24) mutating libc call on the tree / DIR is made to fail with EIO, ENOSPC, EPERM or EINVAL by the LD_PRELOAD interposer (single worker thread). Oracle (inventories before/after): everything that existed under DIR is untouched; every vanished source has its bytes at DIR/<absolute source path>, which did not exist before; no file altered in place; #new regular files under DIR == #moved; intended-but-unmoved sources are untouched and a warning is logged; without obstacles and without an injected failure every intended file is moved; after an injected failure the only relaxation is that an incomplete copy may remain under DIR. Non-trivial = an obstacle was in place, a failure was actually injected, or the cross-device copy fallback moved a file.",
        &["intention of the command is learnt from a dry run of the same command (C11 checks dry-run fidelity)", "failures are injected at libc level, one per run; every position of every call sequence is enumerated by C05"],
    )
}

pub fn replay(file: &std::path::Path) -> i32 {
    replay_one::<C18Case, _>("C18", file, run_case)
}
