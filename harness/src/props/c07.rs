//! C07 `group` and `--dry-run` never modify the scanned tree.

use crate::common::*;
use crate::ded::*;
use crate::grp::*;
use crate::run::*;
use crate::snap::*;
use crate::tree::*;
use crate::util::*;
use proptest::prelude::*;
use serde::{Deserialize, Serialize};
use std::ffi::OsString;

#[derive(Clone, Debug, Serialize, Deserialize)]
pub struct GroupMode {
    pub tree: TreeSpec,
    pub roots: usize,
    /// transform program: 0 cat, 1 head:1, 2 const, 3 fail, 4 failafterread, 5 noout,
    /// 6 scribble (rewrites the file given as $IN; only generated without --no-copy, where $IN is a
    /// private copy), 7 sidefile (leaves `$IN.side` beside its input; same restriction)
    pub prog: Option<u8>,
    /// 0 pipe, 1 $IN, 2 $OUT, 3 $IN+$OUT, 4 --in-place with $IN (the helper never writes to $IN)
    pub io: u8,
    pub no_copy: bool,
    pub cache: bool,
    pub output_file: bool,
    pub links: (bool, bool, bool),
    pub threads: Vec<String>,
    /// environment of the run: 0 private absolute XDG_CACHE_HOME, 1 XDG_CACHE_HOME unset (HOME/.cache),
    /// 2 XDG_CACHE_HOME empty, 3 XDG_CACHE_HOME relative ("cache"); the XDG spec says empty and
    /// relative values are to be ignored
    #[serde(default)]
    pub env_mode: u8,
    /// run with the first root as working directory (roots spelled `.` and `../rN`)
    #[serde(default)]
    pub cwd_in_root: bool,
    /// the k-th mutating libc call below TMPDIR (creation of the private copies and outputs) fails
    /// with ENOSPC / EIO
    #[serde(default)]
    pub tmp_fault: Option<(u8, bool)>,
    /// 0 nothing special; 1 TMPDIR is unusable (it lies below a regular file); 2 an additional scanned
    /// root lives directly in TMPDIR, is named `fclones-data` and has not been touched for years
    #[serde(default)]
    pub tmp_mode: u8,
    /// every second regular file of the tree is made read-only (0444) before the run
    #[serde(default)]
    pub readonly_files: bool,
}

#[derive(Clone, Debug, Serialize, Deserialize)]
pub enum C07Case {
    Group(GroupMode),
    DryRun { d: DCase, output_file: bool },
}

fn group_strategy() -> BoxedStrategy<C07Case> {
    (1usize..=2)
        .prop_flat_map(|roots| {
            let p = Profile {
                names: Names::Hostile,
                dir_names: Names::Hostile,
                roots,
                max_depth: 2,
                files: (3, 9),
                classes: 2,
                boundary_sizes: true,
                max_size: 70000,
                hardlinks: 2,
                symlinks: 2,
                near_dup_pairs: 1,
                resplit: 0,
            };
            ((
                tree_strategy(&p),
                prop::option::weighted(0.85, prop_oneof![6 => 0u8..6, 2 => Just(6u8), 1 => Just(7u8)]),
                0u8..5,
                prop::bool::weighted(0.45),
                prop::bool::weighted(0.3),
                prop::bool::weighted(0.3),
                (any::<bool>(), any::<bool>(), any::<bool>()),
                proptest::collection::vec((0u16..u16::MAX).prop_map(|i| THREAD_SPECS[pick(i, THREAD_SPECS.len())].to_string()), 0..2),
                prop_oneof![5 => Just(0u8), 1 => Just(1u8), 1 => Just(2u8), 2 => Just(3u8)],
                prop::bool::weighted(0.35),
                prop::option::weighted(0.25, (1u8..8, any::<bool>())),
                prop_oneof![8 => Just(0u8), 1 => Just(1u8), 1 => Just(2u8)],
            ),
                prop::bool::weighted(0.3),
            )
                .prop_map(move |((tree, prog, mut io, mut no_copy, cache, output_file, links, threads, env_mode, cwd_in_root, tmp_fault, tmp_mode), readonly_files)| {
                    if prog == Some(6) || prog == Some(7) {
                        // the scribbling helper needs a file name and must only ever get a private copy
                        no_copy = false;
                        if io % 5 == 0 || io % 5 == 2 {
                            io = 4;
                        }
                    }
                    C07Case::Group(GroupMode { tree, roots, prog, io, no_copy, cache, output_file, links, threads, env_mode, cwd_in_root, tmp_fault, tmp_mode, readonly_files })
                })
        })
        .boxed()
}

fn dry_profile() -> ScenarioProfile {
    ScenarioProfile {
        names: Names::Hostile,
        dir_names: Names::Hostile,
        patterns: true,
        priorities: true,
        symlinks: true,
        match_links_ok: true,
        rf: true,
        ops: vec![Op::Remove, Op::Link, Op::SoftLink, Op::Dedupe, Op::Move],
        files: (4, 12),
        hardlinks: 3,
    }
}

fn case_strategy() -> BoxedStrategy<C07Case> {
    prop_oneof![
        3 => group_strategy(),
        2 => (dcase_strategy(dry_profile()), any::<bool>()).prop_map(|(d, output_file)| C07Case::DryRun { d, output_file }),
    ]
    .boxed()
}

fn transform_cmd(g: &GroupMode) -> Option<(String, bool)> {
    let prog = match g.prog? % 8 {
        0 => "cat",
        1 => "head:1",
        2 => "const",
        3 => "fail",
        4 => "failafterread",
        5 => "noout",
        6 => "scribble",
        _ => "sidefile",
    };
    let (cmd, in_place) = match g.io % 5 {
        0 => (format!("fcv-tr {}", prog), false),
        1 => (format!("fcv-tr {} -i $IN", prog), false),
        2 => (format!("fcv-tr {} -o $OUT", prog), false),
        3 => (format!("fcv-tr {} -i $IN -o $OUT", prog), false),
        // reads $IN, writes nothing at all (fclones does not drain stdout while it waits for the
        // program to exit in --in-place mode, so a chatty program would block on a full pipe)
        _ => (format!("fcv-tr {} -i $IN -q", prog), true),
    };
    Some((cmd, in_place))
}

/// Mutating calls on paths below the tree found in the shim log.
fn mutating_calls_in_tree(log: &str, tree: &str) -> Vec<String> {
    let mut out = vec![];
    for l in log.lines() {
        let f: Vec<&str> = l.split(' ').collect();
        if f.len() < 8 || f[2] != "M" {
            continue;
        }
        let hits = |p: &str| p == tree || p.starts_with(&format!("{}/", tree));
        if hits(f[4]) || hits(f[5]) {
            out.push(l.to_string());
        }
    }
    out
}

fn leftovers(tmp: &std::path::Path) -> Vec<String> {
    std::fs::read_dir(tmp)
        .map(|rd| rd.filter_map(|e| e.ok()).map(|e| e.file_name().to_string_lossy().to_string()).filter(|n| n.starts_with("fclones") && n != "fclones-data").collect())
        .unwrap_or_default()
}

pub fn run_case(c: &C07Case, n: u64) -> Verdict {
    match c {
        C07Case::Group(g) => run_group_mode(g, n),
        C07Case::DryRun { d, output_file } => run_dry(d, *output_file, n),
    }
}

fn with_shim(r: Run, cd: &CaseDir) -> Run {
    r.env("LD_PRELOAD", SHIM).env("FCV_ROOT", esc_none(&cd.tree())).env("FCV_LOG", cd.base.join("shim.log"))
}

fn esc_none(p: &std::path::Path) -> OsString {
    p.as_os_str().to_os_string()
}

fn run_group_mode(g: &GroupMode, n: u64) -> Verdict {
    let cd = CaseDir::new("c07", n, Fs::Tmpfs);
    let tree = cd.tree();
    g.tree.build(&tree);
    let mut sig: Vec<String> = vec!["mode-group".into()];
    if g.readonly_files {
        use std::os::unix::fs::PermissionsExt;
        let snap = Snapshot::take(&[&tree]);
        let mut k = 0;
        for (p, node) in snap.nodes.iter() {
            if node.kind == NodeKind::File {
                k += 1;
                if k % 2 == 0 {
                    let _ = std::fs::set_permissions(bytes_path(p), std::fs::Permissions::from_mode(0o444));
                }
            }
        }
        sig.push("read-only-files".into());
    }
    let before = Snapshot::take(&[&tree]);
    let mut args: Vec<OsString> = vec!["group".into()];
    if let Some((cmd, in_place)) = transform_cmd(g) {
        args.push("--transform".into());
        args.push(cmd.clone().into());
        sig.push(format!("io-{}", g.io % 5));
        sig.push(format!("prog-{}", g.prog.unwrap_or(0) % 8));
        if in_place {
            args.push("--in-place".into());
            sig.push("in-place".into());
        }
        if g.no_copy {
            args.push("--no-copy".into());
            sig.push("no-copy".into());
        }
    }
    if g.cache {
        args.push("--cache".into());
        sig.push("cache".into());
    }
    if g.output_file {
        args.push("-o".into());
        args.push(cd.out().join("report.txt").into_os_string());
    }
    for t in &g.threads {
        args.push("--threads".into());
        args.push(t.into());
    }
    if g.links.0 {
        args.push("-S".into());
    }
    if g.links.1 {
        args.push("-L".into());
    }
    if g.links.2 {
        args.push("-H".into());
    }
    let mut run = Run::fclones(&cd);
    if g.cwd_in_root && tree.join(ROOT_NAMES[0]).is_dir() {
        run = run.cwd(tree.join(ROOT_NAMES[0]));
        args.push(".".into());
        for i in 1..g.roots.max(1) {
            args.push(format!("../{}", ROOT_NAMES[i % ROOT_NAMES.len()]).into());
        }
        sig.push("cwd-inside-tree".into());
    } else {
        args.extend(root_args(g.roots));
    }
    match g.env_mode % 4 {
        1 => run = run.unset_env("XDG_CACHE_HOME"),
        2 => run = run.env("XDG_CACHE_HOME", ""),
        3 => run = run.env("XDG_CACHE_HOME", "cache"),
        _ => {}
    }
    if g.env_mode % 4 != 0 {
        sig.push(format!("cache-env-{}", g.env_mode % 4));
    }
    let mut extra_root: Option<std::path::PathBuf> = None;
    match g.tmp_mode % 3 {
        1 => {
            let f = cd.base.join("home").join("not-a-dir");
            let _ = std::fs::write(&f, b"x");
            run = run.env("TMPDIR", f.join("tmp"));
            sig.push("tmpdir-unusable".into());
        }
        2 => {
            // a copy of the first root, directly in TMPDIR, named like fclones' own temporary directories
            let dst = cd.tmp().join("fclones-data");
            let ok = std::process::Command::new("cp").arg("-a").arg(tree.join(ROOT_NAMES[0])).arg(&dst).status().map(|s| s.success()).unwrap_or(false);
            if ok {
                set_times(&dst, BASE_TIME, 0, BASE_TIME);
                args.push(dst.clone().into_os_string());
                extra_root = Some(dst);
                sig.push("scanned-root-inside-tmpdir".into());
            }
        }
        _ => {}
    }
    let before = match &extra_root {
        Some(x) => Snapshot::take(&[&tree, x]),
        None => before,
    };
    let mut run = with_shim(run.args(&args), &cd);
    // (only in the modes without a $OUT pipe: a failed mkfifo / open of the pipe makes fclones wait for
    // a writer that never comes, which no listed property forbids but which costs a watchdog period)
    let tmp_fault = if matches!(g.io % 5, 1 | 4) && g.prog.is_some() { g.tmp_fault } else { None };
    if let Some((k, nospc)) = tmp_fault {
        // relevant for the interposer: the tree (trace) and TMPDIR (fault); the k-th mutating call is
        // counted over both, but a read-only command issues none on the tree
        run = run.env("FCV_ROOT", format!("{}:{}", cd.tree().display(), cd.tmp().display())).env("FCV_FAULT", format!("{}:{}", k, if nospc { "ENOSPC" } else { "EIO" }));
        sig.push("fault-in-tmpdir".into());
    }
    let cmdline = run.cmdline();
    let out = run.run();
    if tmp_fault.is_some() {
        // fclones may give up on a file, but whatever it leaves in TMPDIR after a failed call is its own
        // business only as far as the statement goes: "gone afterwards" is asserted for fault-free runs
        if let Ok(rd) = std::fs::read_dir(cd.tmp()) {
            for e in rd.filter_map(|e| e.ok()) {
                if e.file_name() != "fclones-data" {
                    let p = e.path();
                    let _ = if p.is_dir() { std::fs::remove_dir_all(&p) } else { std::fs::remove_file(&p) };
                }
            }
        }
    }
    finish_case_with(&cd, &before, &out, &cmdline, sig, g.prog.is_some() && g.io % 5 != 0, extra_root.as_deref())
}

fn run_dry(d: &DCase, output_file: bool, n: u64) -> Verdict {
    let g = build_and_group("c07", d, n, Fs::Tmpfs);
    if g.group.timed_out {
        return Verdict::Inconclusive("timeout".into());
    }
    if !g.group.ok() {
        return Verdict::Discard("group-rejected".into());
    }
    let target = target_dir(&g.cd, d);
    let files = file_list(&g.built);
    let (mut args, _) = dedupe_args(d, &files, &g.canon_roots, &target, true);
    if output_file {
        // -o goes before the positional DIR of `move`
        let pos = if d.op == Op::Move { args.len() - 1 } else { args.len() };
        args.insert(pos, g.cd.out().join("script.sh").into_os_string());
        args.insert(pos, "-o".into());
    }
    let tree = g.cd.tree();
    let before = Snapshot::take(&[&tree]);
    let run = with_shim(Run::fclones(&g.cd).args(&args).stdin(g.report_bytes.clone()), &g.cd);
    let cmdline = format!("{}\n{} < report", g.group_cmd, run.cmdline());
    let out = run.run();
    let script = if output_file { std::fs::read(g.cd.out().join("script.sh")).unwrap_or_default() } else { out.stdout.clone() };
    let nonempty = !script.is_empty();
    let sig = vec!["mode-dry-run".to_string(), format!("op-{}", d.op.name()), if output_file { "output-file".to_string() } else { "stdout".to_string() }];
    let v = finish_case(&g.cd, &before, &out, &cmdline, sig, nonempty);
    if target.starts_with("/var/tmp/fcvw") && target.exists() {
        let stray = Verdict::fail("dry-run-created-target", format!("{}\n{:?} exists after a dry run", cmdline, target));
        let _ = std::fs::remove_dir_all(&target);
        if matches!(v, Verdict::Pass { .. }) {
            return stray;
        }
    }
    v
}

fn finish_case(cd: &CaseDir, before: &Snapshot, out: &Out, cmdline: &str, sig: Vec<String>, nontrivial: bool) -> Verdict {
    finish_case_with(cd, before, out, cmdline, sig, nontrivial, None)
}

fn finish_case_with(cd: &CaseDir, before: &Snapshot, out: &Out, cmdline: &str, sig: Vec<String>, nontrivial: bool, extra_root: Option<&std::path::Path>) -> Verdict {
    let tree = cd.tree();
    let fail = |clause: &str, detail: String| Verdict::Fail { clause: clause.into(), detail: format!("{}\n{}\n{}", cmdline, detail, out.brief()), sig: sig.clone() };
    if out.timed_out {
        return Verdict::Inconclusive(format!("timeout {}", cmdline));
    }
    if out.crashed() {
        return fail("crash", String::new());
    }
    let after = match extra_root {
        Some(x) => Snapshot::take(&[&tree, &x.to_path_buf()]),
        None => Snapshot::take(&[&tree]),
    };
    let d = diff(before, &after, true);
    if !d.is_empty() {
        return fail("tree-modified", d.describe());
    }
    // (an empty log is possible: e.g. a dry run over a report without groups touches nothing)
    let log = std::fs::read_to_string(cd.base.join("shim.log")).unwrap_or_default();
    let muts = mutating_calls_in_tree(&log, &tree.to_string_lossy());
    if !muts.is_empty() {
        return fail("mutating-call-in-tree", muts.iter().take(8).cloned().collect::<Vec<_>>().join("\n"));
    }
    let left = leftovers(&cd.tmp());
    if !left.is_empty() {
        return fail("temporary-files-left-behind", format!("{:?} in TMPDIR", left));
    }
    Verdict::Pass { nontrivial, classes: sig.clone() }
}

pub fn check(tier: Tier) -> i32 {
    let ctx = Ctx::new("C07", tier);
    if !std::path::Path::new(SHIM).exists() {
        println!("INCONCLUSIVE: shim not built");
        return 2;
    }
    // self-test: the interposer must be effective in the fclones binary
    {
        let cd = CaseDir::new("c07", 999_999_999, Fs::Tmpfs);
        std::fs::create_dir_all(cd.tree().join("r0")).unwrap();
        std::fs::write(cd.tree().join("r0/a"), b"x").unwrap();
        let _ = with_shim(Run::fclones(&cd).arg("group").arg("r0"), &cd).run();
        let log = std::fs::read_to_string(cd.base.join("shim.log")).unwrap_or_default();
        if !log.contains("opendir") {
            println!("INCONCLUSIVE: LD_PRELOAD interposer is not effective");
            return 2;
        }
    }
    replay_corpus::<C07Case, _>(&ctx, run_case);
    drive(&ctx, "main", tier.pick(5000, 50000), case_strategy, run_case);
    cleanup_process_scratch();
    ctx.finish(
        "exploration",
        "proptest-generated trees (hostile names, hard links, symlinks) x `group` with every transform I/O mode (pipe, $IN, $OUT, $IN+$OUT, --in-place with $IN) x --no-copy x helper programs that read all / part / none of their input, fail before or after reading, or never open $OUT (one helper rewrites the file it is given as $IN, another leaves a by-product `$IN.side` beside it - both only generated without --no-copy, where that file is fclones' private copy) x every second file read-only (0444) in 30 % of the cases x a failing mutating call below TMPDIR (ENOSPC / EIO on the k-th, k = 1..7, in a quarter of the cases) x TMPDIR unusable (below a regular file) or holding an additional scanned root named `fclones-data` that has been idle for years x --cache x -o outside the tree x -S/-L/-H x XDG_CACHE_HOME private / unset / empty / relative x working directory outside or inside the scanned tree; and all five dedupe operations with --dry-run, arbitrary options and -o. Oracle: (1) strict inventory equality before/after (paths, types, bytes, inode numbers, link counts, symlink targets, mtimes, modes); (2) the LD_PRELOAD trace of fclones and all its children contains no mutating libc call (open for write/create, write, rename, link, symlink, unlink, mkdir, mkfifo, truncate, utimes, chmod, clone ioctl) on a path below the scanned tree; (3) no fclones-* entry remains in the private TMPDIR. Non-trivial = a transform mode other than the plain pipe, or a dry run whose script is non-empty.",
        &["mutations are observed at libc level (the binary imports all file operations dynamically)", "only the scribbling helper writes to $IN, and only without --no-copy, so any change of a scanned file is fclones' own"],
    )
}

pub fn replay(file: &std::path::Path) -> i32 {
    replay_one::<C07Case, _>("C07", file, run_case)
}
