//! C05 Replacing a file is atomic with respect to crashes and I/O errors (fault enumeration).

use crate::common::*;
use crate::ded::*;
use crate::run::*;
use crate::snap::*;
use crate::tree::*;
use crate::util::*;
use serde::{Deserialize, Serialize};
use std::collections::BTreeSet;
use std::sync::atomic::Ordering;

#[derive(Clone, Debug, Serialize, Deserialize, PartialEq)]
pub enum Fault {
    KillBefore(usize),
    KillAfter(usize),
    Fail(usize, String),
    FailPair(usize, String, usize, String),
}

#[derive(Clone, Debug, Serialize, Deserialize)]
pub struct C05Case {
    pub d: DCase,
    /// None: enumerate every position of the recording run; Some: exactly this fault (replay)
    pub fault: Option<Fault>,
    pub emulate_reflink: bool,
    pub threads: u8,
}

fn profile() -> ScenarioProfile {
    ScenarioProfile {
        names: Names::Hostile,
        dir_names: Names::Plain,
        patterns: false,
        priorities: false,
        symlinks: false,
        match_links_ok: false,
        rf: false,
        ops: vec![Op::Remove, Op::Link, Op::SoftLink, Op::Dedupe, Op::Move, Op::Move],
        files: (3, 8),
        hardlinks: 0,
    }
}

#[derive(Clone, Debug)]
struct Call {
    func: String,
}

fn parse_mut_calls(log: &str) -> Vec<Call> {
    let mut v = vec![];
    for l in log.lines() {
        let f: Vec<&str> = l.split(' ').collect();
        if f.len() >= 9 && f[2] == "M" && f[8] == "-" {
            v.push(Call { func: f[3].to_string() });
        }
    }
    v
}

fn errnos_for(func: &str, all: bool, rot: usize) -> Vec<&'static str> {
    let v: Vec<&'static str> = match func {
        "rename" => vec!["EIO", "EXDEV", "EPERM", "ENOSPC", "EACCES", "EINVAL"],
        "link" => vec!["EPERM", "EIO", "EXDEV", "ENOSPC", "EMLINK"],
        "symlink" => vec!["EPERM", "EIO", "ENOSPC"],
        "unlink" => vec!["EIO", "EPERM"],
        "open-w" => vec!["EACCES", "ENOSPC", "EIO", "EMFILE", "EPERM"],
        "write" | "copy" => vec!["ENOSPC", "EIO", "EPERM"],
        "clone" => vec!["EOPNOTSUPP", "EIO", "ENOSPC"],
        "mkdir" => vec!["ENOSPC", "EIO", "EPERM"],
        "utimes" => vec!["EPERM", "EIO"],
        "chmod" => vec!["EPERM", "EIO"],
        "truncate" => vec!["EIO", "ENOSPC"],
        _ => vec!["EIO"],
    };
    if all {
        v
    } else {
        // two errnos per position, rotating through the list with the position and the scenario
        let n = v.len();
        let mut out = vec![v[rot % n]];
        if n > 1 {
            out.push(v[(rot + 1) % n]);
        }
        out
    }
}

fn processed_of(out: &Out) -> Option<u64> {
    out.stderr_s().lines().find_map(|l| {
        let i = l.find("Processed ")?;
        l[i + 10..].split(' ').next()?.parse::<u64>().ok()
    })
}

struct Prepared {
    g: Grouped,
    target: std::path::PathBuf,
    args: Vec<std::ffi::OsString>,
    pristine: Snapshot,
}

fn prepare(c: &C05Case, n: u64) -> Result<Prepared, Verdict> {
    let g = build_and_group("c05", &c.d, n, Fs::Tmpfs);
    if g.group.timed_out {
        return Err(Verdict::Inconclusive("timeout".into()));
    }
    if !g.group.ok() {
        return Err(Verdict::Discard("group-rejected".into()));
    }
    let target = target_dir(&g.cd, &c.d);
    let _ = std::fs::remove_dir_all(&target);
    if c.d.move_target >= 2 {
        let _ = std::fs::create_dir_all(&target);
    }
    let files = file_list(&g.built);
    let (args, _) = dedupe_args(&c.d, &files, &g.canon_roots, &target, false);
    let pristine = Snapshot::take(&[&g.cd.tree(), &target]);
    Ok(Prepared { g, target, args, pristine })
}

fn rebuild(c: &C05Case, p: &mut Prepared) {
    p.g.cd.reset_tree();
    c.d.tree.build(&p.g.cd.tree());
    let _ = std::fs::remove_dir_all(&p.target);
    if c.d.move_target >= 2 {
        let _ = std::fs::create_dir_all(&p.target);
    }
    let _ = std::fs::remove_file(p.g.cd.base.join("shim.log"));
    // inode numbers change with every rebuild: the pristine inventory is retaken each time
    p.pristine = Snapshot::take(&[&p.g.cd.tree(), &p.target]);
}

fn run_with(c: &C05Case, p: &Prepared, fault: Option<&Fault>) -> (Out, String) {
    let root = p.g.cd.base.clone(); // tree and (same-fs) target are both below the case dir
    let mut r = Run::fclones(&p.g.cd)
        .args(&p.args)
        .stdin(p.g.report_bytes.clone())
        .env("LD_PRELOAD", SHIM)
        .env("FCV_LOG", p.g.cd.base.join("shim.log"))
        .env("RAYON_NUM_THREADS", c.threads.max(1).to_string());
    // relevant = everything below the case dir; for targets elsewhere use the common parent
    // relevant: the tree and the move target only (not the cache, TMPDIR or report files)
    let _ = root;
    r = r.env("FCV_ROOT", format!("{}:{}", p.g.cd.tree().display(), p.target.display()));
    if c.emulate_reflink {
        r = r.env("FCV_FICLONE_EMULATE", "1");
    }
    match fault {
        Some(Fault::KillBefore(k)) => r = r.env("FCV_KILL", format!("{}:before", k)),
        Some(Fault::KillAfter(k)) => r = r.env("FCV_KILL", format!("{}:after", k)),
        Some(Fault::Fail(k, e)) => r = r.env("FCV_FAULT", format!("{}:{}", k, e)),
        Some(Fault::FailPair(k, e, k2, e2)) => r = r.env("FCV_FAULT", format!("{}:{};{}:{}", k, e, k2, e2)),
        None => {}
    }
    let cmd = format!("{} < report", r.cmdline());
    (r.run(), cmd)
}

/// Relevance filter for FCV_ROOT="/": keep only calls on the case dir or the target.
fn filter_log(log: &str, p: &Prepared) -> String {
    let a = p.g.cd.base.to_string_lossy().to_string();
    let b = p.target.to_string_lossy().to_string();
    log.lines().filter(|l| l.contains(&a) || l.contains(&b)).map(|l| format!("{}\n", l)).collect()
}

fn judge(c: &C05Case, p: &Prepared, fault: Option<&Fault>, out: &Out, cmd: &str, recorded_processed: Option<u64>) -> Option<Verdict> {
    let tree = p.g.cd.tree();
    let after = Snapshot::take(&[&tree, &p.target]);
    let target_b = path_bytes(&p.target);
    let killed = matches!(fault, Some(Fault::KillBefore(_)) | Some(Fault::KillAfter(_)));
    let double = matches!(fault, Some(Fault::FailPair(..)));
    let d = diff(&p.pristine, &after, false);
    let sig = vec![format!("op-{}", c.d.op.name()), format!("fault-{}", match fault { Some(Fault::KillBefore(_)) => "kill-before", Some(Fault::KillAfter(_)) => "kill-after", Some(Fault::Fail(..)) => "fail", Some(Fault::FailPair(..)) => "fail-pair", None => "none" })];
    let fail = |clause: &str, detail: String| {
        Some(Verdict::Fail {
            clause: clause.into(),
            detail: format!("{}\n{}\nfault: {:?}\n{}\nchanges: {}\n{}", p.g.group_cmd, cmd, fault, detail, d.describe(), out.brief()),
            sig: sig.clone(),
        })
    };
    if out.timed_out {
        return Some(Verdict::Inconclusive("timeout".into()));
    }
    if !killed && out.crashed() {
        return fail("crash", String::new());
    }
    let under_target = |q: &Vec<u8>| q.starts_with(&target_b) && (q.len() == target_b.len() || q[target_b.len()] == b'/');
    let temp_of = |q: &Vec<u8>| -> Vec<Vec<u8>> {
        after.nodes.keys().filter(|x| x.len() == q.len() + 25 && x.starts_with(q) && x[q.len()] == b'.' && x[q.len() + 1..].iter().all(|b| b.is_ascii_alphanumeric())).cloned().collect()
    };
    let mut changed_files = 0u64;
    for (path, node) in p.pristine.nodes.iter() {
        if node.kind != NodeKind::File || under_target(path) {
            continue;
        }
        let b = node.bytes.clone();
        let now = after.read_through(path);
        let parked = after.get(path).is_none() && !temp_of(path).is_empty();
        if !untouched(&p.pristine, &after, path) && !parked {
            changed_files += 1;
        }
        if now == b {
            continue; // (a) original bytes readable at the original path (original, link, clone or symlink)
        }
        if after.get(path).is_none() {
            // (c) removed while another untouched replica remains / moved completely
            let other_untouched = p.pristine.nodes.iter().any(|(q, n2)| q != path && n2.kind == NodeKind::File && n2.bytes == b && untouched(&p.pristine, &after, q));
            if c.d.op == Op::Remove && other_untouched {
                continue;
            }
            if c.d.op == Op::Move {
                let mut dest = target_b.clone();
                dest.extend_from_slice(path);
                if after.get(&dest).map(|n2| n2.kind == NodeKind::File && n2.bytes == b).unwrap_or(false) {
                    continue;
                }
            }
            // (b) crash or double fault: the bytes sit under exactly one temporary sibling
            let temps = temp_of(path);
            let good: Vec<&Vec<u8>> = temps.iter().filter(|t| after.get(t).map(|n2| n2.bytes == b).unwrap_or(false)).collect();
            if (killed || double) && good.len() == 1 && temps.len() == 1 {
                if double && !out.stderr_s().contains("warn") {
                    return fail("double-fault-without-warning", format!("{:?} left under its temporary name silently", B(path.clone())));
                }
                continue;
            }
            return fail(
                "original-path-lost",
                format!("{:?} is gone; temp siblings {:?}; killed={} double={}", B(path.clone()), temps.iter().map(|t| B(t.clone())).collect::<Vec<_>>(), killed, double),
            );
        }
        return fail(
            "original-path-reads-other-bytes",
            format!("{:?} had {} bytes, now reads {:?} bytes ({:?})", B(path.clone()), b.as_ref().map(|x| x.len()).unwrap_or(0), now.map(|x| x.len()), after.get(path).map(|n2| n2.kind.clone())),
        );
    }
    // every content is still held by an untouched file (the retained replica is never touched)
    let mut contents: BTreeSet<std::sync::Arc<Vec<u8>>> = BTreeSet::new();
    for (q, n2) in p.pristine.nodes.iter() {
        if n2.kind == NodeKind::File && !under_target(q) && untouched(&p.pristine, &after, q) {
            if let Some(b) = &n2.bytes {
                contents.insert(b.clone());
            }
        }
    }
    for (q, n2) in p.pristine.nodes.iter() {
        if n2.kind == NodeKind::File && !under_target(q) {
            if let Some(b) = &n2.bytes {
                if !contents.contains(b) {
                    return fail("no-untouched-replica-left", format!("no file with the content of {:?} was left untouched", B(q.clone())));
                }
            }
        }
    }
    if !killed {
        // (a temporary sibling may remain when the faulted call is the removal of that sibling;
        // harmful leftovers - original path missing - are caught by the per-file rule above)
        let processed = processed_of(out);
        // a command that did not complete is reported and not counted
        if let (Some(n), Some(n0)) = (processed, recorded_processed) {
            if n < n0 && !out.stderr_s().contains("warn") && !out.stderr_s().contains("error") {
                return fail("failure-not-reported", format!("{} files processed instead of {} but nothing on stderr", n, n0));
            }
        }
        if let Some(n) = processed {
            if n != changed_files && c.d.op != Op::Dedupe {
                return fail("processed-count-wrong", format!("summary says {} files processed, inventory shows {} files changed", n, changed_files));
            }
        }
    }
    None
}

pub fn run_case(ctx: &Ctx, c: &C05Case, n: u64) -> Verdict {
    let mut p = match prepare(c, n) {
        Ok(p) => p,
        Err(v) => return v,
    };
    let cleanup = |p: &Prepared| {
        if p.target.starts_with("/var/tmp/fcvw") && p.target.file_name().map(|x| x.to_string_lossy().starts_with("mv")).unwrap_or(false) {
            let _ = std::fs::remove_dir_all(&p.target);
        }
    };
    if let Some(f) = &c.fault {
        rebuild(c, &mut p);
        let (out, cmd) = run_with(c, &p, Some(f));
        let v = judge(c, &p, Some(f), &out, &cmd, None);
        cleanup(&p);
        return v.unwrap_or(Verdict::pass(true, &["replayed-fault"]));
    }
    // recording run
    rebuild(c, &mut p);
    let (out, cmd) = run_with(c, &p, None);
    let recorded = processed_of(&out);
    if let Some(v) = judge(c, &p, None, &out, &cmd, None) {
        cleanup(&p);
        return v;
    }
    let log = filter_log(&std::fs::read_to_string(p.g.cd.base.join("shim.log")).unwrap_or_default(), &p);
    let calls = parse_mut_calls(&log);
    if calls.is_empty() {
        cleanup(&p);
        return Verdict::pass(false, &["nothing-to-do"]);
    }
    let all_errnos = ctx.tier == Tier::Thorough;
    let mut faults: Vec<Fault> = vec![];
    for (i, call) in calls.iter().enumerate() {
        let k = i + 1;
        faults.push(Fault::KillBefore(k));
        faults.push(Fault::KillAfter(k));
        for e in errnos_for(&call.func, all_errnos, i + n as usize) {
            faults.push(Fault::Fail(k, e.to_string()));
        }
        // the operation fails and the next mutating call (the roll-back, if any) fails too
        faults.push(Fault::FailPair(k, "EIO".into(), k + 1, "EIO".into()));
        if all_errnos {
            faults.push(Fault::FailPair(k, "EPERM".into(), k + 1, "ENOSPC".into()));
        }
    }
    let mut runs = 0u64;
    let mut nontrivial_positions = 0u64;
    for f in &faults {
        rebuild(c, &mut p);
        let (out, cmd) = run_with(c, &p, Some(f));
        runs += 1;
        let pos = match f {
            Fault::KillBefore(k) | Fault::KillAfter(k) | Fault::Fail(k, _) | Fault::FailPair(k, ..) => *k,
        };
        // non-trivial: the faulted call is not the first call of a multi-call replacement
        if pos >= 2 && matches!(calls[pos - 1].func.as_str(), "link" | "symlink" | "unlink" | "clone" | "copy" | "write" | "utimes" | "rename") && calls.len() >= 2 {
            nontrivial_positions += 1;
        }
        if let Some(v) = judge(c, &p, Some(f), &out, &cmd, recorded) {
            if matches!(v, Verdict::Fail { .. }) {
                let case = C05Case { d: c.d.clone(), fault: Some(f.clone()), emulate_reflink: c.emulate_reflink, threads: c.threads };
                ctx.report_limited(&case, &v, 3);
            } else {
                ctx.inconclusive.fetch_add(1, Ordering::Relaxed);
            }
        }
    }
    ctx.evaluations.fetch_add(runs, Ordering::Relaxed);
    ctx.bulk_nontrivial.fetch_add(nontrivial_positions, Ordering::Relaxed);
    ctx.class_n("fault-runs", runs);
    ctx.class_n(&format!("positions-op-{}", c.d.op.name()), calls.len() as u64);
    cleanup(&p);
    Verdict::Pass { nontrivial: calls.len() >= 3, classes: vec![format!("op-{}", c.d.op.name()), format!("calls-{}", calls.len().min(40))] }
}

pub fn check(tier: Tier) -> i32 {
    use proptest::prelude::*;
    let ctx = Ctx::new("C05", tier);
    if !std::path::Path::new(SHIM).exists() {
        println!("INCONCLUSIVE: shim not built");
        return 2;
    }
    replay_corpus::<C05Case, _>(&ctx, |c, n| run_case(&ctx, c, n));
    let strat = || {
        (dcase_strategy(profile()), prop::bool::weighted(0.7), prop_oneof![4 => Just(1u8), 1 => Just(4u8)]).prop_map(|(mut d, emu, threads)| {
            if d.move_target == 1 {
                d.move_target = 0;
            }
            d.dopts.no_lock = false;
            let emulate = d.op == Op::Dedupe && emu;
            C05Case { d, fault: None, emulate_reflink: emulate, threads }
        })
    };
    drive(&ctx, "main", tier.pick(400, 6000), strat, |c, n| run_case(&ctx, c, n));
    cleanup_process_scratch();
    ctx.finish(
        "fault_enumeration",
        "proptest-generated scenario trees (hostile names, 3-8 files) x remove / link / link --soft / dedupe (with and without FICLONE emulation by the interposer) / move (same file system, EXDEV copy fallback, separate mount). For each scenario the sequence of mutating libc calls on the tree and the target (rename, link, symlink, unlink, open for write, write, copy_file_range/sendfile, clone ioctl, mkdir, utimes, chmod, truncate) is recorded under the LD_PRELOAD interposer with RAYON_NUM_THREADS=1, then EVERY position k is re-run on a rebuilt identical tree with: kill just before k, kill just after k, call k failing with 2 (quick; rotating through the list with the position and the scenario) / all (thorough) applicable errnos (incl. EMLINK for link, EACCES/EPERM for open-for-write, rename and the data copy), and the pair (k fails, k+1 fails). Oracle per original file: its bytes are readable at its original path, or (remove) another untouched replica exists, or (move) the complete copy is at DIR/<path>, or (kill / double fault only) exactly one temporary sibling holds them; every content keeps an untouched file; without a kill no temporary sibling remains after a single fault, a warning is logged and 'Processed N' equals the number of changed files. evaluations = faulted runs; non-trivial = runs whose faulted call is a later call of a multi-call replacement.",
        &["faults are injected at libc level; kills happen at call boundaries (not inside a call)", "FICLONE emulation models a reflink-capable file system and is not fclones code", "one fifth of the scenarios run with 4 rayon threads, where 'k-th call' is schedule dependent but the state-based oracle still applies"],
    )
}

pub fn replay(file: &std::path::Path) -> i32 {
    let ctx = Ctx::new("C05", Tier::Quick);
    replay_one::<C05Case, _>("C05", file, |c, n| run_case(&ctx, c, n))
}
