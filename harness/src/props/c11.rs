//! C11 The dry-run script is exactly what a real run does.

use crate::common::*;
use crate::ded::*;
use crate::report::*;
use crate::run::*;
use crate::snap::*;
use crate::tree::*;
use crate::util::*;
use std::collections::{BTreeMap, BTreeSet};
use std::os::unix::ffi::OsStrExt;

fn profile() -> ScenarioProfile {
    ScenarioProfile {
        names: Names::Hostile,
        dir_names: Names::Hostile,
        patterns: true,
        priorities: true,
        symlinks: true,
        match_links_ok: true,
        rf: true,
        ops: vec![Op::Remove, Op::Remove, Op::Link, Op::SoftLink, Op::Move],
        files: (4, 14),
        hardlinks: 3,
    }
}

#[derive(Debug, Clone, PartialEq, Eq)]
struct ScriptOp {
    kind: &'static str,
    file: Vec<u8>,
}

fn words(line: &str) -> Option<Vec<Vec<u8>>> {
    fclones::verif::split(line).ok().map(|w| w.iter().map(|a| a.as_os_str().as_bytes().to_vec()).collect())
}

/// Parses the script into operations; temp names are normalised away.
fn parse_script(script: &[u8], op: &Op) -> Result<(Vec<ScriptOp>, Vec<Vec<Vec<u8>>>), String> {
    let text = String::from_utf8_lossy(script).to_string();
    let mut ops = vec![];
    let mut normalised = vec![];
    let lines: Vec<&str> = text.lines().collect();
    let mut i = 0;
    while i < lines.len() {
        let w = words(lines[i]).ok_or_else(|| format!("unparsable script line {:?}", lines[i]))?;
        if w.is_empty() {
            i += 1;
            continue;
        }
        let cmd = String::from_utf8_lossy(&w[0]).to_string();
        match (cmd.as_str(), op) {
            ("rm", Op::Remove) if w.len() == 2 => {
                ops.push(ScriptOp { kind: "remove", file: w[1].clone() });
                normalised.push(w.clone());
                i += 1;
            }
            ("mv", Op::Move) if w.len() == 3 => {
                ops.push(ScriptOp { kind: "move", file: w[1].clone() });
                normalised.push(w.clone());
                i += 1;
            }
            ("cp", Op::Move) if w.len() == 3 => {
                let w2 = lines.get(i + 1).and_then(|l| words(l)).unwrap_or_default();
                if w2.len() != 2 || w2[0] != b"rm" || w2[1] != w[1] {
                    return Err(format!("cp not followed by rm of the source: {:?}", lines.get(i + 1)));
                }
                ops.push(ScriptOp { kind: "move", file: w[1].clone() });
                normalised.push(w.clone());
                normalised.push(w2);
                i += 2;
            }
            ("mv", Op::Link) | ("mv", Op::SoftLink) | ("mv", Op::Dedupe) if w.len() == 3 => {
                let l2 = lines.get(i + 1).and_then(|l| words(l)).unwrap_or_default();
                let l3 = lines.get(i + 2).and_then(|l| words(l)).unwrap_or_default();
                let link = w[1].clone();
                let tmp = w[2].clone();
                let kind = match (l2.first().map(|x| x.as_slice()), l2.get(1).map(|x| x.as_slice())) {
                    (Some(b"ln"), Some(b"-s")) => "softlink",
                    (Some(b"ln"), _) => "hardlink",
                    (Some(b"cp"), _) => "reflink",
                    _ => return Err(format!("unexpected line after mv: {:?}", lines.get(i + 1))),
                };
                if l2.last() != Some(&link) || l3.len() != 2 || l3[0] != b"rm" || l3[1] != tmp {
                    return Err(format!("malformed link triple at line {}: {:?} / {:?} / {:?}", i, lines[i], lines.get(i + 1), lines.get(i + 2)));
                }
                if !(tmp.len() == link.len() + 25 && tmp.starts_with(&link) && tmp[link.len()] == b'.') {
                    return Err(format!("temp name is not <file>.<24 chars>: {:?}", B(tmp)));
                }
                ops.push(ScriptOp { kind, file: link.clone() });
                let mut n1 = w.clone();
                n1[2] = b"<TMP>".to_vec();
                normalised.push(n1);
                normalised.push(l2);
                normalised.push(vec![b"rm".to_vec(), b"<TMP>".to_vec()]);
                i += 3;
            }
            _ => return Err(format!("unexpected script line {:?} for {}", lines[i], op.name())),
        }
    }
    Ok((ops, normalised))
}

fn summary(stderr: &str) -> Option<(u64, String)> {
    // "... Would process N files and reclaim X space" / "Processed N files and reclaimed X space"
    for l in stderr.lines() {
        for (a, b) in [("Would process ", " files and reclaim "), ("Processed ", " files and reclaimed ")] {
            if let Some(p) = l.find(a) {
                let rest = &l[p + a.len()..];
                if let Some(q) = rest.find(b) {
                    let n = rest[..q].trim().parse().ok()?;
                    let x = rest[q + b.len()..].trim_end_matches(" space").trim().to_string();
                    return Some((n, x));
                }
            }
        }
    }
    None
}

/// Comparable view of a tree: path -> (type, bytes through the path, symlink target) + hard-link partition.
fn view(s: &Snapshot) -> (BTreeMap<Vec<u8>, (String, Option<Vec<u8>>)>, BTreeSet<BTreeSet<Vec<u8>>>) {
    let mut m = BTreeMap::new();
    let mut by_ino: BTreeMap<(u64, u64), BTreeSet<Vec<u8>>> = BTreeMap::new();
    for (p, n) in &s.nodes {
        let (t, payload) = match &n.kind {
            NodeKind::File => ("file".to_string(), n.bytes.as_ref().map(|b| b.to_vec())),
            NodeKind::Dir => ("dir".to_string(), None),
            NodeKind::Symlink(t) => ("symlink".to_string(), Some(t.clone())),
            NodeKind::Other => ("other".to_string(), None),
        };
        m.insert(p.clone(), (t, payload));
        if n.kind == NodeKind::File {
            by_ino.entry(n.id()).or_default().insert(p.clone());
        }
    }
    (m, by_ino.into_values().collect())
}

/// A small number derived from the case, used to seed the schedule perturbation.
fn ops_seed(c: &DCase) -> u64 {
    (c.tree.entries.len() as u64) * 31 + c.dopts.priority.iter().map(|p| *p as u64).sum::<u64>() + c.move_target as u64
}

pub fn run_case(c: &DCase, n: u64) -> Verdict {
    let g = build_and_group("c11", c, n, Fs::Tmpfs);
    let target = target_dir(&g.cd, c);
    let v = judge(c, &g, &target);
    if target.starts_with("/var/tmp/fcvw") {
        let _ = std::fs::remove_dir_all(&target);
    }
    v
}

fn judge(c: &DCase, g: &Grouped, target: &std::path::PathBuf) -> Verdict {
    if g.group.timed_out {
        return Verdict::Inconclusive("timeout".into());
    }
    if !g.group.ok() {
        return Verdict::Discard("group-rejected".into());
    }
    let mut c = c.clone();
    // reading files changes access times between the dry run and the real run
    for p in c.dopts.priority.iter_mut() {
        if *p % 12 == 6 || *p % 12 == 7 {
            *p = 1;
        }
    }
    let c = &c;
    let tree = g.cd.tree();
    let files = file_list(&g.built);
    let report = match if c.text { parse_text(&g.report_bytes) } else { parse_json(&g.report_bytes) } {
        Ok(r) => r,
        Err(e) => return Verdict::fail("harness-cannot-parse-report", e),
    };
    let mut sig = vec![format!("op-{}", c.op.name()), if c.gopts.symbolic_links { "symbolic-links".to_string() } else { "no-symlinks".to_string() }];
    if c.gopts.isolate || c.dopts.isolate {
        sig.push("isolate".into());
    }
    let (dry_args, _) = dedupe_args(c, &files, &g.canon_roots, target, true);
    let (real_args, _) = dedupe_args(c, &files, &g.canon_roots, target, false);
    let mk = |args: &Vec<std::ffi::OsString>, threads: &str| Run::fclones(&g.cd).args(args).env("RAYON_NUM_THREADS", threads).stdin(g.report_bytes.clone());
    let ctxt = format!("{}\n{} < report", g.group_cmd, mk(&dry_args, "1").cmdline());
    let fail = |clause: &str, detail: String| Verdict::Fail { clause: clause.into(), detail: format!("{}\n{}", ctxt, detail), sig: sig.clone() };

    // dry runs with different pool sizes
    let pristine = Snapshot::take(&[&tree, target]);
    let mut scripts = vec![];
    for t in ["1", "2", "16", "jitter"] {
        let o = if t == "jitter" {
            // the interposer yields / sleeps at pseudo-randomly chosen libc calls on tree files
            if !std::path::Path::new(SHIM).exists() {
                continue;
            }
            mk(&dry_args, "8").env("LD_PRELOAD", SHIM).env("FCV_ROOT", &tree).env("FCV_JITTER", (ops_seed(c) + 1).to_string()).run()
        } else {
            mk(&dry_args, t).run()
        };
        if o.timed_out {
            return Verdict::Inconclusive("timeout".into());
        }
        if o.crashed() {
            return fail("dry-run-crash", o.brief());
        }
        if !o.ok() {
            return Verdict::Discard("dedupe-rejected".into());
        }
        scripts.push(o);
    }
    let (ops, norm) = match parse_script(&scripts[0].stdout, &c.op) {
        Ok(x) => x,
        Err(e) => return fail("script-malformed", format!("{}\n{}", e, String::from_utf8_lossy(&scripts[0].stdout))),
    };
    for (i, s) in scripts.iter().enumerate().skip(1) {
        match parse_script(&s.stdout, &c.op) {
            Ok((_, nn)) if nn == norm => {}
            _ => {
                return fail(
                    "dry-run-depends-on-schedule",
                    format!("script with RAYON_NUM_THREADS=1:\n{}\nscript #{}:\n{}", String::from_utf8_lossy(&scripts[0].stdout), i, String::from_utf8_lossy(&s.stdout)),
                )
            }
        }
    }
    // a script that cannot be written must not look like a success: stdout is /dev/full, where every
    // write fails with ENOSPC
    if !scripts[0].stdout.is_empty() {
        let mut cmd = std::process::Command::new(FCLONES_BIN);
        cmd.args(&dry_args).current_dir(&tree).env_clear();
        for (k, v) in Run::fclones(&g.cd).env {
            cmd.env(k, v);
        }
        if let (Ok(full), Ok(report_file)) = (std::fs::OpenOptions::new().write(true).open("/dev/full"), {
            let rp = g.cd.base.join("report.in");
            std::fs::write(&rp, &g.report_bytes).and_then(|_| std::fs::File::open(&rp))
        }) {
            cmd.stdin(report_file).stdout(full).stderr(std::process::Stdio::piped());
            if let Ok(o) = cmd.output() {
                if o.status.code() == Some(0) {
                    return fail("lost-script-reported-as-success", format!("`{} > /dev/full` exits 0 although no byte of the script could be written\nstderr: {}", mk(&dry_args, "1").cmdline(), String::from_utf8_lossy(&o.stderr)));
                }
            }
        }
    }
    // --dry-run -o FILE over an older, longer script: the file must hold the new script only
    if !scripts[0].stdout.is_empty() {
        let of = g.cd.out().join("plan.sh");
        let mut old = scripts[0].stdout.clone();
        for i in 0..12 {
            old.extend_from_slice(format!("rm /stale/entry/of/an/older/script/{}\n", i).as_bytes());
        }
        let _ = std::fs::write(&of, &old);
        let mut a2 = dry_args.clone();
        let pos = if c.op == Op::Move { a2.len() - 1 } else { a2.len() };
        a2.insert(pos, of.clone().into_os_string());
        a2.insert(pos, "-o".into());
        let o = mk(&a2, "1").run();
        if o.ok() {
            let written = std::fs::read(&of).unwrap_or_default();
            let same = match (parse_script(&written, &c.op), parse_script(&scripts[0].stdout, &c.op)) {
                (Ok((_, a)), Ok((_, b))) => a == b,
                _ => false,
            };
            if !same {
                return fail(
                    "script-file-differs-from-stdout-script",
                    format!("{} over an existing, longer file\nfile:\n{}\nstdout script:\n{}", mk(&a2, "1").cmdline(), String::from_utf8_lossy(&written), String::from_utf8_lossy(&scripts[0].stdout)),
                );
            }
        }
    }
    let after_dry = Snapshot::take(&[&tree, target]);
    if !diff(&pristine, &after_dry, true).is_empty() {
        return fail("dry-run-modified-tree", diff(&pristine, &after_dry, true).describe());
    }
    // groups in report order
    let group_of: BTreeMap<Vec<u8>, usize> = report.groups.iter().enumerate().flat_map(|(i, g)| g.files.iter().map(move |f| (f.clone(), i))).collect();
    let seq: Vec<usize> = ops.iter().map(|o| group_of.get(&o.file).copied().unwrap_or(usize::MAX)).collect();
    if seq.iter().any(|x| *x == usize::MAX) {
        return fail("script-names-file-outside-report", format!("{:?}", ops));
    }
    if seq.windows(2).any(|w| w[0] > w[1]) {
        return fail("script-not-in-report-order", format!("group indices {:?}\n{}", seq, String::from_utf8_lossy(&scripts[0].stdout)));
    }

    // the real run
    let real = mk(&real_args, "4").run();
    if real.timed_out {
        return Verdict::Inconclusive("timeout".into());
    }
    if real.crashed() {
        return fail("real-run-crash", real.brief());
    }
    let r_snap = Snapshot::take(&[&tree, target]);
    let d = diff(&pristine, &r_snap, false);
    let target_b = path_bytes(target);
    let mut changed: BTreeSet<Vec<u8>> = BTreeSet::new();
    for p in d.removed.iter().chain(d.changed.iter()) {
        if p.starts_with(&target_b) || pristine.get(p).map(|n| n.kind == NodeKind::Dir).unwrap_or(false) {
            continue;
        }
        changed.insert(p.clone());
    }
    let script_files: BTreeSet<Vec<u8>> = ops.iter().map(|o| o.file.clone()).collect();
    let extra: Vec<B> = changed.difference(&script_files).map(|p| B(p.clone())).collect();
    // a hard link onto the very same inode leaves no trace in the inventory
    let missing: Vec<B> = script_files
        .difference(&changed)
        .filter(|p| !(c.op == Op::Link && pristine.get(*p).map(|n| n.nlink > 1).unwrap_or(false)))
        .map(|p| B(p.clone()))
        .collect();
    if !extra.is_empty() || !missing.is_empty() {
        // signature tag: everything the real run skipped is a symlink to a file it processed itself
        let all_symlinks_to_processed = extra.is_empty()
            && missing.iter().all(|p| {
                matches!(pristine.get(&p.0).map(|n| &n.kind), Some(NodeKind::Symlink(_)))
                    && pristine.nodes.iter().any(|(q, n)| n.kind == NodeKind::File && changed.contains(q) && Some(n.id()) == Some(stat_id(&pristine, &p.0)))
            });
        if all_symlinks_to_processed {
            let mut s = sig.clone();
            s.push("skipped-files-are-symlinks-to-files-processed-in-the-same-run".into());
            return Verdict::Fail {
                clause: "script-differs-from-real-run".into(),
                detail: format!("{}\nin the script but untouched by the real run (symlinks whose targets were processed first): {:?}\nreal: {}", ctxt, missing, real.brief()),
                sig: s,
            };
        }
        return fail(
            "script-differs-from-real-run",
            format!("changed by the real run but not in the script: {:?}\nin the script but untouched by the real run: {:?}\nscript:\n{}\nreal: {}", extra, missing, String::from_utf8_lossy(&scripts[0].stdout), real.brief()),
        );
    }
    // kind of operation
    for o in &ops {
        let after = r_snap.get(&o.file);
        let ok = match o.kind {
            "remove" | "move" => after.is_none(),
            "softlink" => after.map(|n| matches!(n.kind, NodeKind::Symlink(_))).unwrap_or(false),
            "hardlink" => after.map(|n| n.kind == NodeKind::File).unwrap_or(false),
            _ => true,
        };
        if !ok {
            return fail("operation-kind-differs", format!("{:?}: script says {}, real run left {:?}", B(o.file.clone()), o.kind, after.map(|n| n.kind.clone())));
        }
    }
    // summaries
    let s_dry = summary(&scripts[0].stderr_s());
    let s_real = summary(&real.stderr_s());
    if s_dry.is_none() || s_dry != s_real {
        return fail("summary-differs", format!("dry run: {:?}, real run: {:?}\n{}", s_dry, s_real, real.brief()));
    }
    if s_dry.as_ref().map(|s| s.0 as usize) != Some(ops.len()) {
        return fail("summary-count-differs-from-script", format!("summary {:?}, script has {} operations", s_dry, ops.len()));
    }

    // remove / link / link --soft: bash executing the script on an identical tree gives the same tree
    let mut bash_checked = false;
    if matches!(c.op, Op::Remove | Op::Link | Op::SoftLink) {
        g.cd.reset_tree();
        c.tree.build(&tree);
        let rebuilt = Snapshot::take(&[&tree]);
        if view(&rebuilt).0 != view(&pristine).0 {
            return Verdict::Inconclusive("tree rebuild not identical".into());
        }
        let b = Run::program(&g.cd, "bash").arg("--norc").arg("--noprofile").arg("-s").stdin(scripts[0].stdout.clone()).run();
        let b_snap = Snapshot::take(&[&tree]);
        let strip = |s: &Snapshot| {
            let mut s2 = s.clone();
            s2.nodes.retain(|p, _| !p.starts_with(&target_b));
            s2
        };
        let (vr, pr) = view(&strip(&r_snap));
        let (vb, pb) = view(&b_snap);
        if vr != vb || pr != pb {
            let diffs: Vec<String> = vr
                .keys()
                .chain(vb.keys())
                .collect::<BTreeSet<_>>()
                .into_iter()
                .filter(|p| vr.get(*p) != vb.get(*p))
                .map(|p| format!("{:?}: real={:?} bash={:?}", B(p.clone()), vr.get(p).map(|x| &x.0), vb.get(p).map(|x| &x.0)))
                .collect();
            let mut s = sig.clone();
            s.push("bash-differs".into());
            return Verdict::Fail {
                clause: "bash-script-gives-different-tree".into(),
                detail: format!("{}\n{}\nlink partition equal: {}\nscript:\n{}\nbash: {}", ctxt, diffs.join("\n"), pr == pb, String::from_utf8_lossy(&scripts[0].stdout), b.brief()),
                sig: s,
            };
        }
        bash_checked = true;
    }
    let groups_in_script: BTreeSet<usize> = seq.iter().copied().collect();
    let needs_quote = ops.iter().any(|o| o.file.iter().any(|b| !(b.is_ascii_alphanumeric() || b"/._-".contains(b))));
    let nontrivial = ops.len() >= 2 && groups_in_script.len() >= 2 && needs_quote;
    let mut classes = sig.clone();
    if c.gopts.transform.is_some() {
        classes.push("report-from-transform-members-differ-in-size".into());
    }
    if bash_checked {
        classes.push("bash-executed".into());
    }
    Verdict::Pass { nontrivial, classes }
}

/// In one case out of five the report comes from `group --transform 'head -c 3'`: files of one
/// content class but different lengths then share a group, so the members of a group differ in size
/// (the size check of the dedupe commands is switched off through the report header).
fn case_strategy() -> proptest::strategy::BoxedStrategy<DCase> {
    use proptest::prelude::*;
    (dcase_strategy(profile()), prop::bool::weighted(0.2))
        .prop_map(|(mut d, tr)| {
            if tr {
                d.gopts.transform = Some(crate::grp::Tr { op: crate::grp::TrOp::Head(3), io: crate::grp::TrIo::Pipe });
            }
            d
        })
        .boxed()
}

pub fn check(tier: Tier) -> i32 {
    let ctx = Ctx::new("C11", tier);
    replay_corpus::<DCase, _>(&ctx, run_case);
    drive(&ctx, "main", tier.pick(2000, 20000), case_strategy, run_case);
    cleanup_process_scratch();
    ctx.finish(
        "exploration",
        "proptest-generated dedupe scenarios as in C02 (shell-hostile names, hard links, symlinks with -S, roots, priorities, patterns, -n) x remove / link / link --soft / move; one report in five comes from `group --transform 'head -c 3'`, so that the members of a group differ in size. Per case: dry run with RAYON_NUM_THREADS 1, 2, 16 and with 8 threads under schedule perturbation by the interposer (scripts must be identical modulo the random temp suffix and must not touch the tree; a non-empty script sent to /dev/full, where every write fails, must not end with exit status 0; `--dry-run -o FILE` over an existing longer script must leave exactly the new script in FILE); script parsed into (kind, file) operations which must follow report group order and equal, as a set and by kind, the changes of a real run on the same tree (inventory diff); 'Would process N files / reclaim X' must equal 'Processed N files / reclaimed X' and N the number of script operations; for remove/link/link --soft the tree is rebuilt identically and the script is executed by bash: resulting tree (paths, types, bytes, symlink targets, hard-link partition) must equal the real run's. Non-trivial = >=2 operations from >=2 groups and a path needing quoting.",
        &["`dedupe` (reflink) is not compared: unsupported on the sandbox file systems, so a real run processes nothing", "access-time priorities are replaced because reading files between the runs changes atimes", "script lines are decoded with fclones' splitter (its agreement with bash is C17's claim); the bash execution is independent of it"],
    )
}

pub fn replay(file: &std::path::Path) -> i32 {
    replay_one::<DCase, _>("C11", file, run_case)
}
