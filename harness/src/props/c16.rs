//! C16 Globs match as documented and directory pruning is conservative.

use crate::common::*;
use crate::glob::{glob_matches, parse};
use crate::util::*;
use fclones::verif::{PathSelector, Pattern, PatternOpts};
use proptest::prelude::*;
use serde::{Deserialize, Serialize};
use serde_json::json;
use std::panic::catch_unwind;
use std::sync::atomic::{AtomicU64, Ordering};

pub const TOKENS: [&str; 19] = [
    "a", "b", ".", "-", "+", "(", "ż", "\\*", "?", "*", "**", "/", "[ab]", "[!a]", "{a,b*}", "@(a|b)", "?(a|b)", "+(a|b)", "*(a|b)",
];
pub const COMPONENTS: [&str; 8] = ["a", "b", "ab", "a.b", "-", "ż", "A", "a\nb"];

#[derive(Clone, Debug, Serialize, Deserialize)]
pub struct MatchCase {
    pub glob: String,
    pub path: String,
    pub ci: bool,
}

#[derive(Clone, Debug, Serialize, Deserialize)]
pub struct PruneCase {
    pub base_dir: String,
    pub include: Vec<String>,
    pub exclude: Vec<String>,
    pub path: String,
    pub ci: bool,
}

fn all_paths() -> Vec<String> {
    let mut out = vec![];
    let mut level: Vec<String> = vec![String::new()];
    for _ in 0..4 {
        let mut next = vec![];
        for p in &level {
            for c in COMPONENTS.iter() {
                next.push(if p.is_empty() { c.to_string() } else { format!("{}/{}", p, c) });
            }
        }
        out.extend(next.iter().cloned());
        level = next;
    }
    out
}

fn compile(glob: &str, ci: bool) -> Result<Result<Pattern, String>, ()> {
    let g = glob.to_string();
    catch_unwind(move || {
        let opts = if ci { PatternOpts::case_insensitive() } else { PatternOpts::default() };
        Pattern::glob_with(&g, &opts).map_err(|e| e.to_string())
    })
    .map_err(|_| ())
}

fn has_wildcard(g: &str) -> bool {
    let g = g.replace("\\*", "");
    g.contains('*') || g.contains('?') || g.contains('[') || g.contains('{') || g.contains("@(") || g.contains("+(")
}

fn has_meta_literal(g: &str) -> bool {
    g.contains('.') || g.contains('-') || g.contains('+') || g.contains("\\*") || g.contains('ż') || (g.contains('(') && !g.contains("(a|b)"))
}

/// Clause 1 for one glob against many paths. Returns (evaluated, nontrivial) or the failure.
fn check_glob(glob: &str, ci: bool, paths: &[String]) -> Result<(u64, bool), Verdict> {
    let Ok(ast) = parse(glob) else { return Ok((0, false)) };
    let pat = match compile(glob, ci) {
        Err(()) => {
            return Err(Verdict::fail_sig("glob-compile-panics", format!("Pattern::glob({:?}) panicked", glob), &[]));
        }
        Ok(Err(e)) => {
            return Err(Verdict::fail_sig("valid-glob-rejected", format!("Pattern::glob({:?}) failed: {}", glob, e), &[]));
        }
        Ok(Ok(p)) => p,
    };
    for p in paths {
        let want = glob_matches(&ast, p, ci);
        let got = pat.matches(p);
        if want != got {
            return Err(Verdict::Fail {
                clause: "glob-match-differs".into(),
                detail: format!("glob {:?}{} on {:?}: fclones says {}, documented semantics say {}", glob, if ci { " (ignore case)" } else { "" }, p, got, want),
                sig: vec![],
            });
        }
        // the entry point used for --path / --keep-path of the dedupe commands
        let got_path = pat.matches_path(std::path::Path::new(p.as_str()));
        if want != got_path && !p.is_empty() && !p.contains("//") && !p.ends_with('/') {
            return Err(Verdict::Fail {
                clause: "glob-match-differs-matches-path".into(),
                detail: format!("glob {:?}{} on path {:?}: Pattern::matches_path says {}, documented semantics say {}", glob, if ci { " (ignore case)" } else { "" }, p, got_path, want),
                sig: vec![],
            });
        }
    }
    Ok((paths.len() as u64, has_wildcard(glob) && has_meta_literal(glob)))
}

pub fn run_match(c: &MatchCase, _n: u64) -> Verdict {
    match check_glob(&c.glob, c.ci, std::slice::from_ref(&c.path)) {
        Ok((0, _)) => Verdict::Discard("glob-outside-reference-grammar".into()),
        Ok((_, nt)) => Verdict::pass(nt, &[]),
        Err(v) => v,
    }
}

fn ancestors(path: &str) -> Vec<String> {
    let mut out = vec![];
    let mut cur = std::path::Path::new(path).parent();
    while let Some(p) = cur {
        if p.as_os_str().is_empty() {
            break;
        }
        out.push(p.to_string_lossy().to_string());
        cur = p.parent();
    }
    out
}

/// Reference for PathSelector::matches_full_path: a pattern that does not start with `/` or `**`
/// is anchored at the base directory, whose name is literal text (README: relative patterns are
/// relative to the working directory). None when the reference matcher does not cover a pattern.
fn ref_selected(c: &PruneCase) -> Option<bool> {
    let abs = |g: &String| -> String {
        if g.starts_with('/') || g.starts_with("**") {
            g.clone()
        } else {
            format!("{}/{}", crate::ded::escape_glob(&c.base_dir), g)
        }
    };
    let mut inc_any = c.include.is_empty();
    for g in &c.include {
        if crate::glob::ref_match(&abs(g), &c.path, c.ci)? {
            inc_any = true;
        }
    }
    let mut exc_any = false;
    for g in &c.exclude {
        if crate::glob::ref_match(&abs(g), &c.path, c.ci)? {
            exc_any = true;
        }
    }
    Some(inc_any && !exc_any)
}

pub fn run_prune(c: &PruneCase, _n: u64) -> Verdict {
    let cc = c.clone();
    let r = catch_unwind(move || {
        let opts = || if cc.ci { PatternOpts::case_insensitive() } else { PatternOpts::default() };
        let inc: Result<Vec<Pattern>, _> = cc.include.iter().map(|g| Pattern::glob_with(g, &opts())).collect();
        let exc: Result<Vec<Pattern>, _> = cc.exclude.iter().map(|g| Pattern::glob_with(g, &opts())).collect();
        let (Ok(inc), Ok(exc)) = (inc, exc) else { return None };
        let sel = PathSelector::new(fclones::Path::from(cc.base_dir.as_str())).include_paths(inc).exclude_paths(exc);
        let p = fclones::Path::from(cc.path.as_str());
        if !sel.matches_full_path(&p) {
            return Some((false, None));
        }
        for d in ancestors(&cc.path) {
            if !sel.matches_dir(&fclones::Path::from(d.as_str())) {
                return Some((true, Some(d)));
            }
        }
        Some((true, None))
    });
    if let (Ok(Some((got, _))), Some(want)) = (&r, ref_selected(c)) {
        if *got != want {
            return Verdict::Fail {
                clause: "selection-differs-from-reference".into(),
                detail: format!(
                    "base dir {:?}, include {:?}, exclude {:?}{}: path {:?} is {} by PathSelector::matches_full_path but {} by the reference (relative patterns anchored at the literal base dir)",
                    c.base_dir, c.include, c.exclude, if c.ci { " (ignore case)" } else { "" }, c.path, if *got { "selected" } else { "not selected" }, if want { "selected" } else { "not selected" }
                ),
                sig: vec![],
            };
        }
    }
    match r {
        Err(_) => Verdict::fail("selector-panics", format!("{:?}", c)),
        Ok(None) => Verdict::Discard("pattern-rejected".into()),
        Ok(Some((false, _))) => Verdict::pass(false, &["path-not-selected"]),
        Ok(Some((true, None))) => Verdict::pass(ancestors(&c.path).len() >= 3, &["path-selected"]),
        Ok(Some((true, Some(d)))) => {
            let mut sig = vec![];
            if !c.exclude.is_empty() {
                sig.push("has-exclude".to_string());
            }
            // literal text before the first wildcard of an include pattern (incl. the base dir of relative ones).
            // The open finding (byte length used as a character count) can only strike when the directory
            // is at least as long, in bytes, as that literal prefix minus its last character: shorter
            // directories are compared correctly, so a pruned one is a different defect.
            let non_ascii_prefix = c.include.iter().any(|g| {
                // a relative pattern is prefixed with the (literal) base directory
                let mut lit = if g.starts_with('/') { String::new() } else { format!("{}/", c.base_dir) };
                let mut it = g.chars();
                while let Some(ch) = it.next() {
                    if ch == '\\' {
                        if let Some(n) = it.next() {
                            lit.push(n);
                        }
                    } else if "*?[{@+".contains(ch) {
                        break;
                    } else {
                        lit.push(ch);
                    }
                }
                let cut = lit.char_indices().last().map(|(i, _)| i).unwrap_or(0);
                !lit.is_ascii() && d.len() >= cut
            });
            if non_ascii_prefix {
                sig.push("non-ascii-in-include-prefix".to_string());
            }
            Verdict::Fail {
                clause: "pruning-not-conservative".into(),
                detail: format!(
                    "base dir {:?}, include {:?}, exclude {:?}{}: the selector selects {:?} but refuses to enter its ancestor directory {:?}",
                    c.base_dir, c.include, c.exclude, if c.ci { " (ignore case)" } else { "" }, c.path, d
                ),
                sig,
            }
        }
    }
}

/// Grammar-based globs with nested groups whose members contain metacharacter literals.
fn nested_glob_strategy() -> impl Strategy<Value = String> {
    let lit = prop_oneof![
        Just("a"), Just("b"), Just("c"), Just("."), Just("-"), Just("+"), Just("^"), Just("$"), Just("ż"), Just("\\*"), Just("\\?"),
        Just("\\{"), Just("\\("), Just("\\|"), Just("\\,"), Just("\\["), Just("A"), Just("zz")
    ]
    .prop_map(|s| s.to_string());
    let atom = prop_oneof![
        6 => lit.clone(),
        1 => Just("?".to_string()),
        1 => Just("*".to_string()),
        1 => Just("**".to_string()),
        1 => Just("/".to_string()),
        1 => Just("[ab]".to_string()),
        1 => Just("[!a]".to_string()),
        1 => Just("[a-c]".to_string()),
    ];
    let seq = proptest::collection::vec(atom.clone(), 0..3).prop_map(|v| v.concat());
    let group = (0u8..5, proptest::collection::vec(seq.clone(), 1..4)).prop_map(|(k, alts)| match k {
        0 => format!("{{{}}}", alts.join(",")),
        1 => format!("@({})", alts.join("|")),
        2 => format!("?({})", alts.join("|")),
        3 => format!("+({})", alts.join("|")),
        _ => format!("*({})", alts.join("|")),
    });
    proptest::collection::vec(prop_oneof![3 => atom, 2 => group], 1..5).prop_map(|v| v.concat())
}

fn nested_path_strategy() -> impl Strategy<Value = String> {
    let comp = proptest::collection::vec(
        prop_oneof![Just("a"), Just("b"), Just("c"), Just("."), Just("-"), Just("+"), Just("^"), Just("$"), Just("ż"), Just("*"), Just("?"), Just("{"), Just("("), Just("|"), Just(","), Just("["), Just("A"), Just("zz")],
        1..4,
    )
    .prop_map(|v| v.concat());
    proptest::collection::vec(comp, 1..3).prop_map(|v| v.join("/"))
}

fn glob_strategy(max_tokens: usize) -> impl Strategy<Value = String> {
    proptest::collection::vec((0u16..u16::MAX).prop_map(|i| TOKENS[pick(i, TOKENS.len())]), 1..=max_tokens).prop_map(|v| v.concat())
}

/// Components of the pruning cases: those of the enumeration plus upper-case non-ASCII names.
const PRUNE_COMPONENTS: [&str; 11] = ["a", "b", "ab", "a.b", "-", "ż", "A", "Ż", "ŻÓŁW", "Ab", "a\nb"];

fn rel_path_strategy() -> impl Strategy<Value = String> {
    proptest::collection::vec((0u16..u16::MAX).prop_map(|i| PRUNE_COMPONENTS[pick(i, PRUNE_COMPONENTS.len())]), 1..=4).prop_map(|v| v.join("/"))
}

fn flip_case(s: &str) -> String {
    s.chars().map(|c| if c.is_lowercase() { c.to_uppercase().next().unwrap_or(c) } else if c.is_uppercase() { c.to_lowercase().next().unwrap_or(c) } else { c }).collect()
}

const BASE_DIRS: [&str; 14] =
    ["/t", "/t/a.b", "/t/v-1", "/t/ż", "/t/a+b", "/t/(x)", "/t/A", "/t/a$", "/t/[1]", "/t/{a,b}", "/t/+(x)", "/t/a*", "/t/q?", "/t/@(a|b)"];

fn prune_strategy() -> impl Strategy<Value = PruneCase> {
    // patterns are built from a directory prefix of the path itself (so that selection is likely),
    // given absolute or relative to the base dir, with wildcards substituted for some components
    let pat = |abs: bool| {
        (proptest::collection::vec(prop_oneof![4 => Just(0u8), 1 => Just(1), 1 => Just(2), 1 => Just(3), 1 => Just(4)], 1..=4), 0u8..4)
            .prop_map(move |(subst, tail)| (subst, tail, abs))
    };
    (
        (0u16..u16::MAX).prop_map(|i| BASE_DIRS[pick(i, BASE_DIRS.len())].to_string()),
        rel_path_strategy(),
        proptest::collection::vec((pat(true), any::<bool>()), 0..3),
        proptest::collection::vec((pat(true), any::<bool>()), 0..2),
        rel_path_strategy(),
        prop::bool::weighted(0.3),
        prop::bool::weighted(0.25),
    )
        .prop_map(|(base, rel, incs, excs, other, ci, flip)| {
            // the candidate path is, one time in four, the case-flipped twin of the path the patterns are
            // derived from (selected only under --ignore-case, or through a wildcard)
            let path = if flip { format!("{}/{}", base, flip_case(&rel)) } else { format!("{}/{}", base, rel) };
            let comps: Vec<&str> = rel.split('/').collect();
            let mk = |((subst, tail, _abs), relative): &((Vec<u8>, u8, bool), bool), from: &Vec<&str>| -> String {
                let mut parts: Vec<String> = vec![];
                for (i, c) in from.iter().enumerate() {
                    let s = subst.get(i).copied().unwrap_or(0);
                    parts.push(match s {
                        1 => "*".to_string(),
                        2 => "?".repeat(c.chars().count()),
                        3 => format!("{{{},zz}}", crate::ded::escape_glob(c)),
                        4 => "**".to_string(),
                        _ => crate::ded::escape_glob(c),
                    });
                }
                let keep = (parts.len() as i32 - (*tail as i32 % 3)).max(1) as usize;
                let mut g = parts[..keep].join("/");
                if keep < parts.len() || *tail == 3 {
                    g.push_str(if *tail % 2 == 0 { "/**" } else { "**" });
                }
                if *relative {
                    g
                } else {
                    format!("{}/{}", crate::ded::escape_glob(&base), g)
                }
            };
            let ocomps: Vec<&str> = other.split('/').collect();
            // the first include pattern is derived from the path itself, further ones from another path
            let include: Vec<String> = incs.iter().enumerate().map(|(i, p)| if i == 0 { mk(p, &comps) } else { mk(p, &ocomps) }).collect();
            let mut exclude: Vec<String> = excs.iter().map(|p| mk(p, &ocomps)).collect();
            // a trailing group of which only the last alternative is open-ended: `{dir,other/**}` excludes
            // the entry `dir` itself and everything below `other`, but nothing below `dir`
            if other.len() % 3 == 0 && comps.len() >= 2 {
                exclude.push(format!("{}/{{{},{}zz/**}}", crate::ded::escape_glob(&base), crate::ded::escape_glob(comps[0]), crate::ded::escape_glob(ocomps[0])));
            }
            PruneCase { base_dir: base, include, exclude, path, ci }
        })
}

pub fn check(tier: Tier) -> i32 {
    let ctx = Ctx::new("C16", tier);
    std::panic::set_hook(Box::new(|_| {}));
    replay_corpus::<MatchCase, _>(&ctx, run_match);
    {
        // prune cases live in the same corpus dir with a different shape; load those that parse
        let dir = std::path::Path::new(VERIF).join("corpus").join("C16");
        if let Ok(rd) = std::fs::read_dir(&dir) {
            let cases: Vec<PruneCase> = rd.filter_map(|e| e.ok()).filter_map(|e| load_case::<PruneCase>(&e.path())).collect();
            drive_list(&ctx, cases, run_prune);
        }
    }

    // Tier A: bounded-exhaustive globs x all paths of <=4 components
    let max_tokens = tier.pick(3, 4);
    let paths = all_paths();
    let mut globs: Vec<String> = vec![];
    let mut level: Vec<String> = vec![String::new()];
    for _ in 0..max_tokens {
        let mut next = Vec::with_capacity(level.len() * TOKENS.len());
        for g in &level {
            for t in TOKENS.iter() {
                next.push(format!("{}{}", g, t));
            }
        }
        globs.extend(next.iter().cloned());
        level = next;
    }
    ctx.set_extra("exhaustive_tier", json!({"tokens": TOKENS.len(), "max_tokens": max_tokens, "globs": globs.len(), "paths": paths.len(), "case_modes": 2}));
    let next = AtomicU64::new(0);
    let evals = AtomicU64::new(0);
    let nontriv = AtomicU64::new(0);
    let outside = AtomicU64::new(0);
    std::thread::scope(|sc| {
        for _ in 0..ctx.workers {
            sc.spawn(|| loop {
                let i = next.fetch_add(1, Ordering::Relaxed) as usize;
                if i >= globs.len() {
                    break;
                }
                for ci in [false, true] {
                    match check_glob(&globs[i], ci, &paths) {
                        Ok((0, _)) => {
                            outside.fetch_add(1, Ordering::Relaxed);
                        }
                        Ok((n, nt)) => {
                            evals.fetch_add(n, Ordering::Relaxed);
                            if nt {
                                nontriv.fetch_add(n, Ordering::Relaxed);
                            }
                        }
                        Err(v) => {
                            // find the smallest failing path for the report
                            let mut reported = false;
                            for p in &paths {
                                if let Err(v1) = check_glob(&globs[i], ci, std::slice::from_ref(p)) {
                                    let case = MatchCase { glob: globs[i].clone(), path: p.clone(), ci };
                                    ctx.report_limited(&case, &v1, 4);
                                    reported = true;
                                    break;
                                }
                            }
                            if !reported {
                                let case = MatchCase { glob: globs[i].clone(), path: String::new(), ci };
                                ctx.report_limited(&case, &v, 4);
                            }
                        }
                    }
                }
            });
        }
    });
    ctx.evaluations.fetch_add(evals.load(Ordering::Relaxed), Ordering::Relaxed);
    ctx.bulk_nontrivial.fetch_add(nontriv.load(Ordering::Relaxed), Ordering::Relaxed);
    ctx.set_extra("globs_outside_reference_grammar", json!(outside.load(Ordering::Relaxed)));
    {
        let mut s = ctx.samples.lock().unwrap();
        for i in [3usize, 200, 1500, 5000] {
            if i < globs.len() {
                s.push(json!({"glob": globs[i], "paths": paths.len()}));
            }
        }
    }

    // Tier B: random longer globs (5..7 tokens) against random paths
    drive(
        &ctx,
        "random-globs",
        tier.pick(60_000, 2_000_000),
        || (glob_strategy(7), rel_path_strategy(), prop::bool::weighted(0.3)).prop_map(|(glob, path, ci)| MatchCase { glob, path, ci }),
        run_match,
    );

    drive(
        &ctx,
        "nested-globs",
        tier.pick(300_000, 5_000_000),
        || (nested_glob_strategy(), nested_path_strategy(), prop::bool::weighted(0.2)).prop_map(|(glob, path, ci)| MatchCase { glob, path, ci }),
        run_match,
    );

    // Tier C: conservativeness of directory pruning
    drive(&ctx, "pruning", tier.pick(400_000, 4_000_000), prune_strategy, run_prune);

    ctx.finish(
        "exploration",
        "clause 1: bounded-exhaustive - every glob of <=3 (quick) / <=4 (thorough) tokens over the 19-token alphabet (literals a b . - + ( ż \\*, ?, *, **, /, [ab], [!a], {a,b*}, @(a|b), ?(a|b), +(a|b), *(a|b)) against all 4680 paths of <=4 components over {a,b,ab,a.b,-,ż,A,a<LF>b}, case-sensitive and ignore-case, fclones' Pattern::glob (through Pattern::matches and Pattern::matches_path, the entry points of the scan options and of the dedupe keep/drop options) vs the harness' reference matcher written from README 'Path Globbing'; random globs of up to 7 tokens. clause 2: random PathSelector configurations (include/exclude globs derived from the path with wildcard substitutions, in a third of the cases one more exclude of the shape `BASE/{first-dir,other/**}`, absolute or relative to base directories whose names contain . - + ( ) $ ż or glob syntax such as [1], {a,b}, +(x), a*, q?, @(a|b)) - (a) matches_full_path must agree with the reference matcher, a relative pattern being anchored at the base directory taken literally; (b) whenever the selector selects a full path every proper ancestor directory must pass matches_dir. Non-trivial (1) = glob has a wildcard token and a metacharacter/non-ASCII literal; (2) = selected path with >=3 ancestors. Distinct by construction for the enumeration, by digest for random cases.",
        &["!( ) is outside the statement and not generated", "globs the reference grammar cannot parse (e.g. an unbalanced '?(' produced by token concatenation) are skipped and counted"],
    )
}

pub fn replay(file: &std::path::Path) -> i32 {
    if load_case::<PruneCase>(file).is_some() {
        replay_one::<PruneCase, _>("C16", file, run_prune)
    } else {
        replay_one::<MatchCase, _>("C16", file, run_match)
    }
}
