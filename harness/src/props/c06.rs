//! C06 Replica counting honours links, isolation and the replication filter; the outcome does
//! not depend on how the roots are spelled.

use crate::common::*;
use crate::grp::*;
use crate::model::*;
use crate::run::*;
use crate::tree::*;
use crate::util::*;
use proptest::prelude::*;
use serde::{Deserialize, Serialize};
use std::collections::BTreeSet;
use std::ffi::OsString;
use std::path::{Path, PathBuf};

#[derive(Clone, Debug, Serialize, Deserialize)]
pub struct RootArg {
    /// "r0", "r1", "r0/a" … relative to the tree root
    pub base: String,
    /// spelling style 0..8
    pub spell: u8,
}

#[derive(Clone, Debug, Serialize, Deserialize)]
pub struct C06Case {
    pub tree: TreeSpec,
    pub roots: Vec<RootArg>,
    pub opts: GOpts,
    /// two alternative spellings for the metamorphic relation
    pub alt_spell: Vec<u8>,
    /// four files of 70 000 bytes (two contents) in the first root, and an additional root on another
    /// block device (loop device backed by tmpfs) that holds symlinks to three of them; -S is forced, so the
    /// links are reported and share the ids of their targets while being hashed by another device's pool
    #[serde(default)]
    pub xdev_links: bool,
    /// the roots are the directories `rK/a` only: same depth, same last name (disk1/photos and
    /// disk2/photos); each gets two extra files, one content present under every root, one under
    /// every second root
    #[serde(default)]
    pub twin_named: bool,
}

pub fn spell(base: &str, style: u8, tree: &Path) -> OsString {
    let last = base.rsplit('/').next().unwrap_or(base);
    match style % 9 {
        0 => base.into(),
        1 => format!("./{}", base).into(),
        2 => format!("{}/", base).into(),
        3 => format!("{}/.", base).into(),
        // (not when the root itself is a symlink: `link/..` is the parent of the link's target)
        4 if !tree.join(base).symlink_metadata().map(|m| m.file_type().is_symlink()).unwrap_or(false) => format!("{}/../{}", base, last).into(),
        4 => base.into(),
        5 => format!("../t/{}", base).into(),
        6 => tree.join(base).into_os_string(),
        7 => format!("L/{}", base).into(), // L -> . (directory symlink in the tree root)
        _ => format!("{}//", base).into(),
    }
}

fn case_strategy() -> BoxedStrategy<C06Case> {
    (1usize..=4)
        .prop_flat_map(|nroots| {
            let p = Profile {
                names: Names::Plain,
                dir_names: Names::Plain,
                roots: nroots,
                max_depth: 1,
                files: (3, 10),
                classes: 2,
                boundary_sizes: false,
                max_size: 30,
                hardlinks: 6,
                symlinks: 4,
                near_dup_pairs: 0,
                resplit: 0,
            };
            let op = OptProfile { transform_w: 0.0001, cache_w: 0.05, links: true, isolate: true, rf: true, max_roots: nroots };
            let root = (0..nroots, prop::bool::weighted(0.15), 0u8..9).prop_map(|(r, sub, sp)| RootArg {
                base: if sub { format!("{}/a", ROOT_NAMES[r]) } else { ROOT_NAMES[r].to_string() },
                spell: sp,
            });
            (
                tree_strategy(&p),
                gopts_strategy(op),
                proptest::collection::vec(root, 0..3),
                proptest::collection::vec(0u8..9, nroots + 3),
                proptest::collection::vec(0u8..9, nroots + 3),
                prop::bool::weighted(0.2),
                prop::bool::weighted(0.12),
            )
                .prop_map(move |(tree, mut opts, extra, sp, alt, xdev_links, twin_named)| {
                    opts.transform = None;
                    opts.max_prefix = None;
                    opts.max_suffix = None;
                    let mut roots: Vec<RootArg> =
                        (0..nroots).map(|r| RootArg { base: ROOT_NAMES[r].to_string(), spell: sp[r] }).collect();
                    roots.extend(extra);
                    if roots.len() == nroots {
                        opts.fix_isolate(nroots);
                    }
                    if xdev_links {
                        opts.symbolic_links = true;
                        opts.follow_links = false;
                        opts.disk = 0;
                    }
                    let twin_named = twin_named && nroots >= 2 && !xdev_links;
                    if twin_named {
                        roots = (0..nroots).map(|r| RootArg { base: format!("{}/a", ROOT_NAMES[r]), spell: sp[r] }).collect();
                        opts.isolate = true;
                        opts.fix_isolate(nroots);
                    }
                    C06Case { tree, roots, opts, alt_spell: alt, xdev_links, twin_named }
                })
        })
        .boxed()
}

fn canon(p: &Path) -> PathBuf {
    std::fs::canonicalize(p).unwrap_or_else(|_| p.to_path_buf())
}

pub fn run_case(c: &C06Case, n: u64) -> Verdict {
    let cd = CaseDir::new("c06", n, Fs::Tmpfs);
    let tree = cd.tree();
    c.tree.build(&tree);
    let _ = std::os::unix::fs::symlink(".", tree.join("L"));
    if c.twin_named {
        for (k, r) in c.roots.iter().enumerate() {
            let d = tree.join(&r.base);
            if std::fs::create_dir_all(&d).is_ok() {
                let _ = std::fs::write(d.join("tw0"), class_bytes(60, 25));
                if k % 2 == 0 {
                    let _ = std::fs::write(d.join("tw1"), class_bytes(61, 26));
                }
            }
        }
    }
    let roots: Vec<&RootArg> = c.roots.iter().filter(|r| tree.join(&r.base).is_dir()).collect();
    if roots.is_empty() {
        return Verdict::Discard("no-roots".into());
    }
    let mut args: Vec<OsString> = roots.iter().map(|r| spell(&r.base, r.spell, &tree)).collect();
    // links on another block device
    let mut xdev_dir: Option<PathBuf> = None;
    if c.xdev_links {
        if let Some(m) = ssd_mount() {
            let r0 = tree.join(&roots[0].base);
            let d = m.join(format!("xdev{}", n));
            if std::fs::create_dir_all(&d).is_ok() {
                for (i, class) in [(0u32, 40u32), (1, 40), (2, 41), (3, 41)] {
                    let _ = std::fs::write(r0.join(format!("big{}", i)), class_bytes(class, 70_000));
                }
                for i in 0..3 {
                    let _ = std::os::unix::fs::symlink(r0.join(format!("big{}", i)), d.join(format!("l{}", i)));
                }
                args.push(d.clone().into_os_string());
                xdev_dir = Some(d);
            }
        }
    }
    struct Rm(Option<PathBuf>);
    impl Drop for Rm {
        fn drop(&mut self) {
            if let Some(p) = &self.0 {
                let _ = std::fs::remove_dir_all(p);
            }
        }
    }
    let _rm = Rm(xdev_dir.clone());
    let run = run_group(&cd, &c.opts, &args, "json", &[]);
    let sig = {
        let mut s = vec![];
        if c.opts.isolate {
            s.push("isolate".to_string());
        }
        if c.opts.match_links {
            s.push("match-links".into());
        }
        if c.twin_named {
            s.push("roots-with-equal-last-name".into());
        }
        if c.opts.symbolic_links {
            s.push("symbolic-links".into());
        }
        if c.opts.follow_links {
            s.push("follow-links".into());
        }
        if roots.iter().any(|r| r.spell % 9 != 0 && r.spell % 9 != 6) {
            s.push("non-canonical-spelling".into());
        }
        s
    };
    let fail = |clause: &str, detail: String| Verdict::Fail {
        clause: clause.into(),
        detail: format!("{}\n{}", run.cmdline, detail),
        sig: sig.clone(),
    };
    if run.out.timed_out {
        return Verdict::Inconclusive(format!("timeout {}", run.cmdline));
    }
    if !run.out.ok() {
        if run.out.crashed() {
            return fail("crash", run.out.brief());
        }
        if let Some(r) = clean_rejection(&run.out) {
            return Verdict::Discard(format!("rejected:{}", r));
        }
        return fail("error-exit", run.out.brief());
    }
    let report = match &run.report {
        Ok(r) => r,
        Err(e) => return fail("unparsable-report", e.clone()),
    };

    // reference
    let mut root_paths: Vec<PathBuf> = roots.iter().map(|r| tree.join(&r.base)).collect();
    if let Some(d) = &xdev_dir {
        root_paths.push(d.clone());
    }
    let selected = reference_walk(&root_paths, &c.opts.walk_opts(), &|_, _, _| false, &|_| true);
    let counting = Counting {
        rf: c.opts.rf_model(),
        match_links: c.opts.match_links,
        isolate_roots: if c.opts.isolate { Some(root_paths.iter().map(|p| canon(p)).collect()) } else { None },
    };
    let content = c.opts.content_fn();
    let (expected, _not) = expected_groups(&selected, &*content, &counting);
    let exp: Vec<(u64, Vec<Vec<u8>>)> = expected.iter().map(|g| (g.len, g.paths.clone())).collect();
    let got = report.path_sets();
    if got != exp {
        return fail(
            "wrong-classes-reported",
            format!("expected: {}\ngot:      {}", describe_groups(&exp), describe_groups(&got)),
        );
    }

    // metamorphic: other spellings of the same roots give the same report body
    let canonical: Vec<OsString> = root_paths.iter().map(|p| canon(p).into_os_string()).collect();
    let mut alt: Vec<OsString> =
        roots.iter().enumerate().map(|(i, r)| spell(&r.base, c.alt_spell[i % c.alt_spell.len()], &tree)).collect();
    if let Some(d) = &xdev_dir {
        alt.push(d.clone().into_os_string());
    }
    for (name, a) in [("canonical", canonical), ("alternative", alt), ("stdin", args.clone())] {
        let r2 = if name == "stdin" { run_group_stdin(&cd, &c.opts, &a, "json", &[]) } else { run_group(&cd, &c.opts, &a, "json", &[]) };
        if name == "stdin" && !r2.out.ok() && !r2.out.crashed() && !r2.out.timed_out && clean_rejection(&r2.out).is_some() {
            // e.g. --isolate needs the roots as arguments
            continue;
        }
        match &r2.report {
            Ok(rep2) => {
                let same_groups = rep2.groups == report.groups;
                let same_stats = rep2.header.as_ref().map(|h| h.stats.clone()) == report.header.as_ref().map(|h| h.stats.clone());
                if !same_groups || !same_stats {
                    return fail(
                        "spelling-changes-outcome",
                        format!(
                            "{} spelling: {}\nfirst:  {} stats {:?}\nsecond: {} stats {:?}",
                            name,
                            r2.cmdline,
                            describe_groups(&report.path_sets()),
                            report.header.as_ref().and_then(|h| h.stats.clone()),
                            describe_groups(&rep2.path_sets()),
                            rep2.header.as_ref().and_then(|h| h.stats.clone())
                        ),
                    );
                }
            }
            Err(e) => {
                if r2.out.timed_out {
                    return Verdict::Inconclusive("timeout".into());
                }
                return fail("spelling-changes-outcome", format!("{} spelling failed: {} {}", name, e, r2.out.brief()));
            }
        }
    }

    // non-trivial: some class where the three counting rules disagree and the count is near the threshold
    let mut classes: std::collections::BTreeMap<std::sync::Arc<Vec<u8>>, Vec<&SelFile>> = Default::default();
    for f in &selected {
        classes.entry(f.bytes.clone()).or_default().push(f);
    }
    let threshold = match c.opts.rf {
        RfOpt::Default => 1,
        RfOpt::Over(k) => k,
        RfOpt::Under(k) => k,
        RfOpt::Unique => 2,
    } as i64;
    let mut nontrivial = false;
    for members in classes.values() {
        let paths = members.len();
        let inodes = members.iter().map(|m| m.id).collect::<BTreeSet<_>>().len();
        let rts = members
            .iter()
            .filter_map(|m| root_paths.iter().position(|r| bytes_path(&m.path).starts_with(canon(r))))
            .collect::<BTreeSet<_>>()
            .len();
        let cnt = replica_count(members, &counting) as i64;
        if !(paths == inodes && inodes == rts) && (cnt - threshold).abs() <= 1 {
            nontrivial = true;
        }
    }
    let mut cl: Vec<String> = sig.clone();
    cl.push(format!("rf-{:?}", c.opts.rf).to_lowercase());
    cl.push(format!("roots-{}", roots.len()));
    Verdict::Pass { nontrivial, classes: cl }
}

pub fn check(tier: Tier) -> i32 {
    let ctx = Ctx::new("C06", tier);
    replay_corpus::<C06Case, _>(&ctx, run_case);
    drive(&ctx, "main", tier.pick(5000, 50000), case_strategy, run_case);
    cleanup_process_scratch();
    ctx.finish(
        "exploration",
        "proptest-generated trees of tiny files in 1-4 roots with hard-link sets inside/across roots, file and directory symlinks, overlapping roots, in an eighth of the cases isolated roots `rK/a` only (equal depth, equal last name, one content under every root and one under every second), in a fifth of the cases an additional root on another block device holding symlinks (reported with -S) to 70 kB files of the first root, 9 root spellings (relative, ./, trailing slash, /., .., ../cwd, absolute, through a directory symlink, //) x --rf-over 0..3 / --rf-under 1..4 / --unique / -H / -I / -S / -L; oracle 1: reference replica count (hard links one replica, every path under -H, one per canonical root under -I) decides reported classes, each with all its paths; oracle 2 (metamorphic): canonical and alternative spellings of the same roots, and the same roots fed through --stdin (unless that combination is rejected), give identical groups and statistics. Non-trivial = a class whose path count, inode count and root count are not all equal and whose replica count is within 1 of the threshold.",
        &["root arguments name directories", "isolate roots are compared canonically (statement: outcome independent of spelling)"],
    )
}

pub fn replay(file: &std::path::Path) -> i32 {
    replay_one::<C06Case, _>("C06", file, run_case)
}
