//! C10 Reports round-trip losslessly from `group` to the dedupe commands; truncated reports are
//! rejected instead of being acted on partially. In-process through ReportWriter / open_report.

use crate::common::*;
use crate::props::c17::ALPHABET;
use crate::util::*;
use chrono::{DateTime, FixedOffset, TimeZone};
use fallible_iterator::FallibleIterator;
use fclones::config::OutputFormat;
use fclones::report::{open_report, FileStats, ReportHeader, ReportWriter};
use fclones::verif::Arg;
use fclones::{FileGroup, FileHash, FileLen};
use proptest::prelude::*;
use serde::{Deserialize, Serialize};
use serde_json::json;
use std::os::unix::ffi::OsStrExt;
use std::panic::{catch_unwind, AssertUnwindSafe};
use std::sync::atomic::{AtomicU64, Ordering};

#[derive(Clone, Debug, Serialize, Deserialize, PartialEq)]
pub struct CG {
    pub len: u64,
    pub hash: B,
    /// each file is a list of path components below the root
    pub files: Vec<Vec<B>>,
}

#[derive(Clone, Debug, Serialize, Deserialize, PartialEq)]
pub struct C10Case {
    pub version: (u8, u8, u8),
    pub ts_ms: i64,
    pub offset_min: i16,
    pub command: Vec<B>,
    pub base_dir: Vec<B>,
    pub stats: Vec<u64>,
    pub groups: Vec<CG>,
    /// append a group with this many generated files (exercises large groups)
    pub big_group: Option<u16>,
    pub json: bool,
    /// check every truncation point (else only the round trip)
    pub truncate: bool,
}

fn comp_ok(c: &B) -> bool {
    !c.0.is_empty() && !c.0.contains(&0) && !c.0.contains(&b'/') && c.0 != b"." && c.0 != b".." && c.0.len() <= 200
}

fn abs_path(comps: &[B]) -> Vec<u8> {
    let mut v = vec![];
    for c in comps {
        v.push(b'/');
        v.extend_from_slice(&c.0);
    }
    v
}

struct Built {
    header: ReportHeader,
    groups: Vec<FileGroup<fclones::Path>>,
}

fn build(c: &C10Case) -> Option<Built> {
    if c.command.is_empty() || c.command.iter().any(|a| a.0.is_empty() || a.0.contains(&0)) {
        return None;
    }
    if c.base_dir.is_empty() || !c.base_dir.iter().all(comp_ok) {
        return None;
    }
    let off = FixedOffset::east_opt(c.offset_min as i32 * 60)?;
    let ts: DateTime<FixedOffset> = off.timestamp_millis_opt(c.ts_ms).single()?;
    let mut groups = vec![];
    let mut all = c.groups.clone();
    if let Some(n) = c.big_group {
        let files: Vec<Vec<B>> = (0..n).map(|i| vec![B::s("big"), B(format!("f {}", i).into_bytes())]).collect();
        all.push(CG { len: 7, hash: B(vec![0xab; 16]), files });
    }
    for g in &all {
        if g.files.is_empty() || !g.files.iter().all(|f| !f.is_empty() && f.iter().all(comp_ok)) {
            return None;
        }
        if ![16usize, 32, 64].contains(&g.hash.0.len()) {
            return None;
        }
        groups.push(FileGroup {
            file_len: FileLen(g.len),
            file_hash: FileHash::from(g.hash.0.as_slice()),
            files: g.files.iter().map(|f| fclones::Path::from(bytes_path(&abs_path(f)))).collect(),
        });
    }
    let s = &c.stats;
    if s.len() != 7 {
        return None;
    }
    let header = ReportHeader {
        version: format!("{}.{}.{}", c.version.0, c.version.1, c.version.2),
        timestamp: ts,
        command: c.command.iter().map(|a| Arg::from(a.os())).collect(),
        base_dir: fclones::Path::from(bytes_path(&abs_path(&c.base_dir))),
        stats: Some(FileStats {
            group_count: s[0] as usize,
            total_file_count: s[1] as usize,
            total_file_size: FileLen(s[2]),
            redundant_file_count: s[3] as usize,
            redundant_file_size: FileLen(s[4]),
            missing_file_count: s[5] as usize,
            missing_file_size: FileLen(s[6]),
        }),
    };
    Some(Built { header, groups })
}

fn write(b: &Built, json: bool) -> Vec<u8> {
    let mut out = Vec::new();
    {
        let mut w = ReportWriter::new(&mut out, false);
        let fmt = if json { OutputFormat::Json } else { OutputFormat::Default };
        w.write(fmt, &b.header, b.groups.iter()).expect("writing to a Vec cannot fail");
    }
    out
}

fn path_b(p: &fclones::Path) -> Vec<u8> {
    p.to_path_buf().as_os_str().as_bytes().to_vec()
}

fn group_eq(a: &FileGroup<fclones::Path>, b: &FileGroup<fclones::Path>) -> bool {
    a.file_len == b.file_len && a.file_hash == b.file_hash && a.files.len() == b.files.len() && a.files.iter().zip(b.files.iter()).all(|(x, y)| path_b(x) == path_b(y))
}

fn describe_group(g: &FileGroup<fclones::Path>) -> String {
    format!("len={} hash={} files={:?}", g.file_len.0, g.file_hash, g.files.iter().map(|p| B(path_b(p))).collect::<Vec<_>>())
}

enum ReadOutcome {
    HeaderErr(String),
    Read { header: ReportHeader, groups: Vec<FileGroup<fclones::Path>>, end: Result<(), String> },
}

/// A stream that delivers `data` and then fails with EIO instead of signalling end of file (a report
/// cut off by a failing disk, network file system or pipe rather than by a short file).
struct FailingReader {
    data: Vec<u8>,
    pos: usize,
}

impl std::io::Read for FailingReader {
    fn read(&mut self, buf: &mut [u8]) -> std::io::Result<usize> {
        if self.pos >= self.data.len() {
            return Err(std::io::Error::from_raw_os_error(5));
        }
        let n = buf.len().min(self.data.len() - self.pos);
        buf[..n].copy_from_slice(&self.data[self.pos..self.pos + n]);
        self.pos += n;
        Ok(n)
    }
}

fn read(bytes: Vec<u8>) -> Result<ReadOutcome, ()> {
    read_from(std::io::Cursor::new(bytes))
}

fn read_from(stream: impl std::io::Read + Send + 'static) -> Result<ReadOutcome, ()> {
    catch_unwind(AssertUnwindSafe(move || {
        let mut r = match open_report(stream) {
            Ok(r) => r,
            Err(e) => return ReadOutcome::HeaderErr(e.to_string()),
        };
        let header = match r.read_header() {
            Ok(h) => h,
            Err(e) => return ReadOutcome::HeaderErr(e.to_string()),
        };
        let mut it = match r.read_groups() {
            Ok(i) => i,
            Err(e) => return ReadOutcome::HeaderErr(e.to_string()),
        };
        let mut groups = vec![];
        let end = loop {
            match it.next() {
                Ok(Some(g)) => groups.push(g),
                Ok(None) => break Ok(()),
                Err(e) => break Err(e.to_string()),
            }
        };
        ReadOutcome::Read { header, groups, end }
    }))
    .map_err(|_| ())
}

fn sig_of(c: &C10Case) -> Vec<String> {
    let mut s = vec![if c.json { "json".to_string() } else { "text".to_string() }];
    if c.big_group.map(|n| n > 1024).unwrap_or(false) {
        s.push("group-over-1024".into());
    }
    s
}

pub fn run_case(c: &C10Case, _n: u64) -> Verdict {
    let Some(b) = build(c) else { return Verdict::Discard("outside-domain".into()) };
    let sig = sig_of(c);
    let fail = |clause: &str, detail: String| Verdict::Fail { clause: clause.into(), detail, sig: sig.clone() };
    let bytes = match catch_unwind(AssertUnwindSafe(|| write(&b, c.json))) {
        Ok(x) => x,
        Err(_) => return fail("writer-panics", format!("{:?}", c)),
    };
    let shown = || String::from_utf8_lossy(&bytes).chars().take(1200).collect::<String>();
    // ---- round trip --------------------------------------------------------------------------
    match read(bytes.clone()) {
        Err(()) => return fail("reader-panics", shown()),
        Ok(ReadOutcome::HeaderErr(e)) => return fail("own-report-rejected", format!("{}\n{}", e, shown())),
        Ok(ReadOutcome::Read { header, groups, end }) => {
            if let Err(e) = end {
                return fail("own-report-rejected", format!("group iteration failed: {}\n{}", e, shown()));
            }
            if header.version != b.header.version {
                return fail("header-version", format!("{:?} vs {:?}", header.version, b.header.version));
            }
            if header.timestamp.timestamp_millis() != b.header.timestamp.timestamp_millis() || header.timestamp.offset() != b.header.timestamp.offset() {
                return fail("header-timestamp", format!("read {:?}, written {:?}", header.timestamp, b.header.timestamp));
            }
            let cmd_r: Vec<Vec<u8>> = header.command.iter().map(|a| a.as_os_str().as_bytes().to_vec()).collect();
            let cmd_w: Vec<Vec<u8>> = c.command.iter().map(|a| a.0.clone()).collect();
            if cmd_r != cmd_w {
                return fail("header-command", format!("read {:?}\nwritten {:?}\n{}", cmd_r.iter().map(|x| B(x.clone())).collect::<Vec<_>>(), c.command, shown()));
            }
            if path_b(&header.base_dir) != path_b(&b.header.base_dir) {
                return fail("header-base-dir", format!("read {:?}, written {:?}", B(path_b(&header.base_dir)), B(path_b(&b.header.base_dir))));
            }
            if header.stats != b.header.stats {
                return fail("header-stats", format!("read {:?}, written {:?}", header.stats, b.header.stats));
            }
            if groups.len() != b.groups.len() {
                return fail("group-count", format!("read {} groups, written {}\n{}", groups.len(), b.groups.len(), shown()));
            }
            for (i, (r, w)) in groups.iter().zip(b.groups.iter()).enumerate() {
                if !group_eq(r, w) {
                    return fail("group-differs", format!("group {}:\nread    {}\nwritten {}", i, describe_group(r), describe_group(w)));
                }
            }
        }
    }
    // ---- truncation -------------------------------------------------------------------------
    let mut cuts_checked = 0;
    if c.truncate {
        // byte offsets at which each group ends (text format): recomputed by writing prefixes
        let mut ends: Vec<usize> = vec![];
        if !c.json {
            for k in 0..=b.groups.len() {
                let partial = Built { header: b.header.clone(), groups: b.groups[..k].to_vec() };
                ends.push(write(&partial, false).len());
            }
        }
        let cut_positions: Vec<usize> = if bytes.len() <= 1500 {
            (0..bytes.len()).collect()
        } else {
            // all line boundaries +-2 and a stride
            let mut v: Vec<usize> = vec![];
            for (i, ch) in bytes.iter().enumerate() {
                if *ch == b'\n' {
                    for d in 0..5 {
                        let p = i as i64 + d - 2;
                        if p >= 0 && (p as usize) < bytes.len() {
                            v.push(p as usize);
                        }
                    }
                }
            }
            v.extend((0..bytes.len()).step_by(97));
            v.sort();
            v.dedup();
            v
        };
        for (cut, by_error) in cut_positions.iter().flat_map(|c| [(*c, false), (*c, true)]) {
            cuts_checked += 1;
            let prefix = bytes[..cut].to_vec();
            // the stream ends at the cut either with a plain end of file or with a read error (EIO)
            let outcome = if by_error { read_from(FailingReader { data: prefix, pos: 0 }) } else { read(prefix) };
            let how = if by_error { "stream fails with EIO" } else { "cut" };
            match outcome {
                Err(()) => return fail("reader-panics-on-truncated-report", format!("{} at {} of {}\n{}", how, cut, bytes.len(), shown())),
                Ok(ReadOutcome::HeaderErr(_)) => {}
                Ok(ReadOutcome::Read { groups, end, .. }) => {
                    if c.json {
                        return fail("truncated-json-accepted", format!("{} at {} of {}", how, cut, bytes.len()));
                    }
                    // every group read must be an original group, complete before the cut
                    for (i, g) in groups.iter().enumerate() {
                        let complete = i + 1 < ends.len() && (ends[i + 1] <= cut || ends[i + 1] == cut + 1);
                        if i >= b.groups.len() || !group_eq(g, &b.groups[i]) || !complete {
                            return fail(
                                "truncated-report-yields-wrong-group",
                                format!(
                                    "{} at byte {} of {} (group ends at {:?}): reader yielded as group {}: {}\noriginal: {}",
                                    how,
                                    cut,
                                    bytes.len(),
                                    ends,
                                    i,
                                    describe_group(g),
                                    b.groups.get(i).map(describe_group).unwrap_or_default()
                                ),
                            );
                        }
                    }
                    if end.is_ok() {
                        // a clean end is only acceptable at a group boundary (or one byte short of it: missing final newline)
                        let k = groups.len();
                        let at_boundary = ends.get(k).map(|e| *e == cut || *e == cut + 1).unwrap_or(false) || (k == 0 && cut <= ends[0]);
                        if !at_boundary {
                            return fail(
                                "truncated-report-accepted",
                                format!("{} at byte {} of {} lies inside group {} (boundaries {:?}) but the reader reported a clean end after {} groups", how, cut, bytes.len(), k, ends, k),
                            );
                        }
                    }
                }
            }
        }
    }
    let hostile = c
        .groups
        .iter()
        .flat_map(|g| g.files.iter().flatten())
        .chain(c.command.iter())
        .chain(c.base_dir.iter())
        .any(|x| x.0.iter().any(|b| !(b.is_ascii_alphanumeric() || b"/._-".contains(b))));
    let mut classes = sig.clone();
    if cuts_checked > 0 {
        classes.push("truncation-checked".into());
    }
    Verdict::Pass { nontrivial: hostile, classes }
}

fn byte_name() -> BoxedStrategy<B> {
    let sym = prop_oneof![
        5 => (0u16..u16::MAX).prop_map(|i| ALPHABET[pick(i, ALPHABET.len())].to_vec()),
        3 => (0u16..u16::MAX).prop_map(|i| crate::props::c17::EXTRA[pick(i, crate::props::c17::EXTRA.len())].to_vec()),
        2 => (1u8..=255u8).prop_filter("slash", |b| *b != b'/').prop_map(|b| vec![b]),
        2 => any::<char>().prop_filter("nul or slash", |c| *c != '\0' && *c != '/').prop_map(|c| c.to_string().into_bytes()),
        3 => "[a-zA-Z0-9._-]{1,5}".prop_map(|s| s.into_bytes()),
    ];
    proptest::collection::vec(sym, 1..6).prop_map(|v| B(v.concat())).prop_filter("dot", |b| b.0 != b"." && b.0 != b".." && !b.0.contains(&b'/')).boxed()
}

fn arg_name() -> BoxedStrategy<B> {
    crate::props::c17::arg_strategy(8).boxed()
}

pub fn case_strategy() -> BoxedStrategy<C10Case> {
    let path = proptest::collection::vec(byte_name(), 1..4);
    let group = (0u64..u64::MAX / 4, prop_oneof![Just(16usize), Just(32), Just(64)], proptest::collection::vec(any::<u8>(), 64), proptest::collection::vec(path.clone(), 1..6))
        .prop_map(|(len, hl, hb, files)| CG { len, hash: B(hb[..hl].to_vec()), files });
    (
        (0u8..100, 0u8..100, 0u8..100),
        0i64..4_102_444_800_000,
        -14 * 60i16..14 * 60,
        proptest::collection::vec(arg_name(), 1..6),
        proptest::collection::vec(byte_name(), 1..4),
        proptest::collection::vec(0u64..u64::MAX / 2, 7),
        proptest::collection::vec(group, 0..6),
        prop::option::weighted(0.03, prop_oneof![Just(1023u16), Just(1024), Just(1025), Just(1100), Just(2050)]),
        any::<bool>(),
        prop::bool::weighted(0.25),
    )
        .prop_map(|(version, ts_ms, offset_min, command, base_dir, stats, groups, big_group, json, truncate)| C10Case {
            version,
            ts_ms,
            offset_min,
            command,
            base_dir,
            stats,
            groups,
            big_group,
            json,
            truncate: truncate && big_group.is_none(),
        })
        .boxed()
}

fn template(component: &B, pos: u8, json: bool) -> C10Case {
    let plain = |s: &str| B::s(s);
    let mk_path = |c: &B| match pos {
        0 => vec![c.clone(), plain("m"), plain("f")],
        1 => vec![plain("d"), c.clone(), plain("f")],
        _ => vec![plain("d"), plain("m"), c.clone()],
    };
    let mut case = C10Case {
        version: (0, 35, 0),
        ts_ms: 1_700_000_000_123,
        offset_min: 60,
        command: vec![plain("fclones"), plain("group"), plain(".")],
        base_dir: vec![plain("home"), plain("u")],
        stats: vec![2, 4, 40, 2, 20, 0, 0],
        groups: vec![
            CG { len: 10, hash: B(vec![1; 16]), files: vec![vec![plain("d"), plain("a")], vec![plain("d"), plain("b")]] },
            CG { len: 10, hash: B(vec![2; 16]), files: vec![vec![plain("e"), plain("a")], vec![plain("e"), plain("b")]] },
        ],
        big_group: None,
        json,
        truncate: false,
    };
    match pos {
        0..=2 => case.groups[0].files[1] = mk_path(component),
        3 => case.command.push(component.clone()),
        _ => case.base_dir.push(component.clone()),
    }
    case
}

pub fn check(tier: Tier) -> i32 {
    let ctx = Ctx::new("C10", tier);
    std::panic::set_hook(Box::new(|_| {}));
    replay_corpus::<C10Case, _>(&ctx, run_case);

    // Tier A: bounded-exhaustive single components / arguments / base dirs
    let maxlen = tier.pick(3, 4);
    let mut strings: Vec<B> = vec![];
    {
        let mut level: Vec<Vec<u8>> = vec![vec![]];
        for _ in 0..maxlen {
            let mut next = vec![];
            for s in &level {
                for a in ALPHABET.iter() {
                    let mut t = s.clone();
                    t.extend_from_slice(a);
                    next.push(t);
                }
            }
            strings.extend(next.iter().cloned().map(B));
            level = next;
        }
    }
    ctx.set_extra("exhaustive_components", json!({"alphabet": 20, "max_len": maxlen, "strings": strings.len(), "positions": ["first path component", "middle", "last", "command argument", "base dir component"], "formats": 2}));
    let next = AtomicU64::new(0);
    let evals = AtomicU64::new(0);
    let nontriv = AtomicU64::new(0);
    std::thread::scope(|sc| {
        for _ in 0..ctx.workers {
            sc.spawn(|| loop {
                let i = next.fetch_add(1, Ordering::Relaxed) as usize;
                if i >= strings.len() {
                    break;
                }
                let s = &strings[i];
                for pos in 0u8..5 {
                    if pos < 3 || pos == 4 {
                        if !comp_ok(s) {
                            continue;
                        }
                    }
                    for json in [false, true] {
                        let case = template(s, pos, json);
                        let v = run_case(&case, 0);
                        evals.fetch_add(1, Ordering::Relaxed);
                        match &v {
                            Verdict::Pass { nontrivial, .. } => {
                                if *nontrivial {
                                    nontriv.fetch_add(1, Ordering::Relaxed);
                                }
                            }
                            Verdict::Fail { .. } => ctx.report_limited(&case, &v, 3),
                            _ => {}
                        }
                    }
                }
            });
        }
    });
    ctx.evaluations.fetch_add(evals.load(Ordering::Relaxed), Ordering::Relaxed);
    ctx.bulk_nontrivial.fetch_add(nontriv.load(Ordering::Relaxed), Ordering::Relaxed);
    {
        let mut s = ctx.samples.lock().unwrap();
        s.push(serde_json::to_value(template(&strings[strings.len() / 3], 2, false)).unwrap());
    }

    // Tier B: random reports, round trip + every truncation point for a quarter of them
    drive(&ctx, "random", tier.pick(50_000, 500_000), case_strategy, run_case);

    // Tier C: end-to-end cross-check - reports written by `fclones group` on generated trees with
    // hostile names, cut at many offsets, fed to `fclones remove --dry-run`
    drive(&ctx, "cli-truncation", tier.pick(240, 2000), cli_case_strategy, cli_run_case);
    crate::run::cleanup_process_scratch();

    ctx.finish(
        "exploration",
        "in-process through fclones' public ReportWriter / open_report. Tier A (bounded-exhaustive): every string of <=3 (quick) / <=4 (thorough) symbols over the 20-symbol hostile alphabet as the first, middle and last component of a path, as a command argument and as a base-dir component, written and read back in the text and JSON formats. Tier B (random, shrinking): reports with 0-6 groups (plus occasionally a group of 1023..2050 files), arbitrary non-NUL path bytes, 1-5 arguments, arbitrary ms timestamps and offsets, statistics, 16/32/64-byte hashes; a quarter of them are additionally cut at every byte offset (reports <=1500 B) or at all line boundaries +-2 and a stride (larger): the reader must return only original groups that end before the cut and must not report a clean end inside a group; every cut is tried twice, the stream ending with EOF and with a read error (EIO). Oracle: read(write(r)) == r field by field (paths and arguments compared as bytes, timestamp at ms). Tier C (end to end): the text and JSON reports of `fclones group` on generated trees with hostile names are cut at every line boundary +-2 and a stride and piped to `fclones remove --dry-run`: the printed script may name only files of groups that are complete before the cut, and a cut strictly inside a group must give a non-zero exit status. Non-trivial = a path, argument or base dir contains a byte outside [A-Za-z0-9/._-].",
        &["paths are absolute, components are non-empty, NUL-free and not . or ..; arguments are non-empty and NUL-free", "a cut that removes only the final newline of the last path line may be accepted (all data present)"],
    )
}

pub fn replay(file: &std::path::Path) -> i32 {
    replay_one::<C10Case, _>("C10", file, run_case)
}


// ---- Tier C: CLI cross-check --------------------------------------------------------------------

use crate::ded::{build_and_group, dcase_strategy, DCase, Op, ScenarioProfile};
use crate::props::c20::intended_files;
use crate::run::{Fs, Run};
use crate::tree::Names;

fn cli_case_strategy() -> BoxedStrategy<DCase> {
    dcase_strategy(ScenarioProfile {
        names: Names::Hostile,
        dir_names: Names::Hostile,
        patterns: false,
        priorities: false,
        symlinks: false,
        match_links_ok: false,
        rf: false,
        ops: vec![Op::Remove],
        files: (5, 12),
        hardlinks: 0,
    })
}

fn cli_run_case(c: &DCase, n: u64) -> Verdict {
    let g = build_and_group("c10", c, n, Fs::Tmpfs);
    if g.group.timed_out {
        return Verdict::Inconclusive("timeout".into());
    }
    if !g.group.ok() {
        return Verdict::Discard("group-rejected".into());
    }
    let bytes = &g.report_bytes;
    // group extents in the text format: [start of header line, end of last path line)
    let mut extents: Vec<(usize, usize, Vec<Vec<u8>>)> = vec![];
    if c.text {
        let mut pos = 0;
        for line in bytes.split_inclusive(|b| *b == b'\n') {
            let start = pos;
            pos += line.len();
            if line.starts_with(b"#") {
                continue;
            }
            if line.starts_with(b"    ") {
                if let Some(last) = extents.last_mut() {
                    last.1 = pos;
                    let txt = String::from_utf8_lossy(&line[4..line.len() - 1]).to_string();
                    last.2.push(unesc(&txt).unwrap_or_default());
                }
            } else {
                extents.push((start, pos, vec![]));
            }
        }
    }
    let mut cuts: Vec<usize> = vec![];
    for (i, ch) in bytes.iter().enumerate() {
        if *ch == b'\n' {
            for d in 0..5i64 {
                let p = i as i64 + d - 2;
                if p >= 0 && (p as usize) < bytes.len() {
                    cuts.push(p as usize);
                }
            }
        }
    }
    cuts.extend((0..bytes.len()).step_by(53));
    cuts.sort();
    cuts.dedup();
    // keep the number of processes per case bounded
    let stride = (cuts.len() / 40).max(1);
    let mut checked = 0;
    for cut in cuts.into_iter().step_by(stride) {
        let out = Run::fclones(&g.cd).arg("remove").arg("--dry-run").stdin(bytes[..cut].to_vec()).run();
        checked += 1;
        if out.timed_out {
            return Verdict::Inconclusive("timeout".into());
        }
        let mk = |clause: &str, detail: String| Verdict::Fail {
            clause: clause.into(),
            detail: format!("{}\nreport ({} bytes, {}) cut at byte {} | fclones remove --dry-run\n{}\n{}", g.group_cmd, bytes.len(), if c.text { "text" } else { "json" }, cut, detail, out.brief()),
            sig: vec![if c.text { "text".to_string() } else { "json".to_string() }, "cli".into()],
        };
        if out.crashed() {
            return mk("dedupe-crashes-on-truncated-report", String::new());
        }
        let named = intended_files(&out.stdout);
        if !c.text {
            // a truncated JSON document is never acceptable
            if out.ok() || !named.is_empty() {
                return mk("truncated-json-acted-on", format!("script names {:?}", named.iter().map(|p| B(p.clone())).collect::<Vec<_>>()));
            }
            continue;
        }
        let complete: Vec<&Vec<u8>> = extents.iter().filter(|e| e.1 <= cut || e.1 == cut + 1).flat_map(|e| e.2.iter()).collect();
        if let Some(bad) = named.iter().find(|p| !complete.contains(p)) {
            return mk("script-names-file-of-incomplete-group", format!("{:?} is named by the script but its group is not complete before the cut", B(bad.clone())));
        }
        let inside = extents.iter().any(|e| e.0 < cut && cut + 1 < e.1);
        if inside && out.ok() {
            return mk("cut-inside-group-accepted", "exit status 0".into());
        }
    }
    Verdict::Pass { nontrivial: checked > 0 && !extents.is_empty(), classes: vec!["cli-truncation".into(), if c.text { "text".to_string() } else { "json".to_string() }] }
}
