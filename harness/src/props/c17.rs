//! C17 Shell quoting of paths and arguments is lossless.
//!
//! Oracles: (1) split(join(args)) == args, (2) split(quote(s)) == [s], (3) bash decodes quote(s)
//! to s, (4) the same for Path::quote, (5) split never panics.

use crate::common::*;
use crate::util::*;
use fclones::verif::{join, quote, split, Arg};
use proptest::prelude::*;
use serde_json::json;
use std::ffi::OsString;
use std::io::Write;
use std::os::unix::ffi::{OsStrExt, OsStringExt};
use std::panic::catch_unwind;
use std::sync::atomic::{AtomicU64, Ordering};

pub const ALPHABET: [&[u8]; 20] = [
    b" ", b"\t", b"\n", b"'", b"\"", b"\\", b"$", b"`", b"*", b"?", b"#", b"~", b"!", b"-", b"=", b"a",
    "ż".as_bytes(),
    "😀".as_bytes(),
    b"\xff",
    b"\x7f",
];

/// Further troublesome symbols used beyond the alphabet named in the property: Unicode white
/// space of several kinds, other shell metacharacters, C1 controls, lone continuation bytes, multi-byte sequences cut short, a UTF-16 surrogate encoded as UTF-8.
pub const EXTRA: [&[u8]; 33] = [
    "\u{a0}".as_bytes(), "\u{3000}".as_bytes(), "\u{2003}".as_bytes(), "\u{85}".as_bytes(), "\u{2028}".as_bytes(),
    "\u{1680}".as_bytes(), "\u{feff}".as_bytes(), "\u{fffd}".as_bytes(), b"\r", b"\x0b", b"\x0c", b"\x1b", b"\x01", b"|", b"&", b";",
    b"<", b">", b"(", b")", b"{", b"}", b"[", b"]", b"%", b"+", b"\x80", b"\xc3",
    // multi-byte sequences cut short (a name truncated inside a character)
    b"\xf0\x9f\x98", b"\xf0\x9f", b"\xe2\x82", b"\xc5", b"\xed\xa0\x80",
];

fn strings_upto(len: usize) -> Vec<B> {
    strings_over(&ALPHABET, len)
}

fn strings_over(alphabet: &[&[u8]], len: usize) -> Vec<B> {
    let mut out: Vec<B> = vec![];
    let mut level: Vec<Vec<u8>> = vec![vec![]];
    for _ in 0..len {
        let mut next = Vec::with_capacity(level.len() * alphabet.len());
        for s in &level {
            for a in alphabet.iter() {
                let mut t = s.clone();
                t.extend_from_slice(a);
                next.push(t);
            }
        }
        out.extend(next.iter().cloned().map(B));
        level = next;
    }
    out
}

fn arg_of(b: &B) -> Arg {
    Arg::from(OsString::from_vec(b.0.clone()))
}

/// In-process clauses (1), (2), (4-in-process part), returns Err(clause, detail).
fn check_inproc(args: &[B]) -> Result<bool, (String, String)> {
    let a: Vec<Arg> = args.iter().map(arg_of).collect();
    let mut needs_quoting = false;
    for (b, arg) in args.iter().zip(a.iter()) {
        let q = match catch_unwind(|| quote(arg.as_os_str().to_os_string())) {
            Ok(q) => q,
            Err(_) => return Err(("quote-panics".into(), format!("quote({:?}) panicked", b))),
        };
        if q.as_bytes() != b.0.as_slice() {
            needs_quoting = true;
        }
        let back = catch_unwind(|| split(&q));
        match back {
            Err(_) => return Err(("split-quote".into(), format!("split panicked on quote({:?}) = {:?}", b, q))),
            Ok(Err(e)) => {
                return Err(("split-quote".into(), format!("split(quote({:?}) = {:?}) failed: {}", b, q, e)))
            }
            Ok(Ok(v)) => {
                let got: Vec<Vec<u8>> = v.iter().map(|x| x.as_os_str().as_bytes().to_vec()).collect();
                if got != vec![b.0.clone()] {
                    return Err((
                        "split-quote".into(),
                        format!(
                            "split(quote({:?}) = {:?}) = {:?}",
                            b,
                            q,
                            got.iter().map(|g| B(g.clone())).collect::<Vec<_>>()
                        ),
                    ));
                }
            }
        }
    }
    let line = match catch_unwind(|| join(&a)) {
        Ok(l) => l,
        Err(_) => return Err(("join-panics".into(), format!("join({:?}) panicked", args))),
    };
    match catch_unwind(|| split(&line)) {
        Err(_) => return Err(("split-join".into(), format!("split panicked on join({:?}) = {:?}", args, line))),
        Ok(Err(e)) => return Err(("split-join".into(), format!("split(join({:?}) = {:?}) failed: {}", args, line, e))),
        Ok(Ok(v)) => {
            let got: Vec<B> = v.iter().map(|x| B(x.as_os_str().as_bytes().to_vec())).collect();
            if got.as_slice() != args {
                return Err(("split-join".into(), format!("split(join({:?}) = {:?}) = {:?}", args, line, got)));
            }
        }
    }
    Ok(needs_quoting)
}

/// Runs bash on a batch of already quoted words, returns the decoded words or None if the
/// script as a whole did not produce the expected number of outputs.
fn bash_decode(words: &[String]) -> Option<Vec<Vec<u8>>> {
    let mut script = Vec::new();
    for w in words {
        script.extend_from_slice(b"printf '%s\\0' ");
        script.extend_from_slice(w.as_bytes());
        script.push(b'\n');
    }
    let mut child = std::process::Command::new("bash")
        .arg("--norc")
        .arg("--noprofile")
        .arg("-s")
        .env_clear()
        .env("PATH", "/usr/bin:/bin")
        .env("HOME", "/nonexistent-home-for-fcv")
        .env("LC_ALL", "C.UTF-8")
        .current_dir("/")
        .stdin(std::process::Stdio::piped())
        .stdout(std::process::Stdio::piped())
        .stderr(std::process::Stdio::null())
        .spawn()
        .ok()?;
    let mut stdin = child.stdin.take().unwrap();
    let writer = std::thread::spawn(move || {
        let _ = stdin.write_all(&script);
    });
    let out = child.wait_with_output().ok()?;
    let _ = writer.join();
    let mut parts: Vec<Vec<u8>> = out.stdout.split(|b| *b == 0).map(|s| s.to_vec()).collect();
    if parts.last().map(|l| l.is_empty()).unwrap_or(false) {
        parts.pop();
    }
    if parts.len() == words.len() {
        Some(parts)
    } else {
        None
    }
}

/// Clause (3)/(4): bash decodes each quoted word to the original. Returns mismatches.
fn bash_check(items: &[(B, String)]) -> Vec<(B, String, Option<B>)> {
    let mut bad = vec![];
    for chunk in items.chunks(400) {
        let words: Vec<String> = chunk.iter().map(|(_, q)| q.clone()).collect();
        match bash_decode(&words) {
            Some(dec) if dec.iter().zip(chunk.iter()).all(|(d, (b, _))| *d == b.0) => {}
            _ => {
                // pinpoint one by one
                for (b, q) in chunk {
                    match bash_decode(std::slice::from_ref(q)) {
                        Some(d) if d[0] == b.0 => {}
                        Some(d) => bad.push((b.clone(), q.clone(), Some(B(d[0].clone())))),
                        None => bad.push((b.clone(), q.clone(), None)),
                    }
                }
            }
        }
    }
    bad
}

fn verdict_for(args: &Vec<B>, with_bash: bool) -> Verdict {
    match check_inproc(args) {
        Err((clause, detail)) => Verdict::Fail { clause, detail, sig: sig_of(args) },
        Ok(nq) => {
            if with_bash {
                let mut items: Vec<(B, String)> =
                    args.iter().map(|b| (b.clone(), quote(b.os()))).collect();
                // Path::quote for path-like strings
                for b in args {
                    if let Some(p) = as_path(b) {
                        let fp = fclones::Path::from(bytes_path(&p.0));
                        items.push((p, fp.quote()));
                    }
                }
                let bad = bash_check(&items);
                if let Some((b, q, d)) = bad.into_iter().next() {
                    return Verdict::Fail {
                        clause: "bash-decode".into(),
                        detail: format!("bash decodes {:?} (quoted form of {:?}) as {:?}", q, b, d),
                        sig: sig_of(&vec![b]),
                    };
                }
            }
            Verdict::pass(nq, &[])
        }
    }
}

/// "/d/<s>" when s can be a single path component that Path keeps verbatim.
fn as_path(b: &B) -> Option<B> {
    if b.0.contains(&b'/') || b.0 == b"." || b.0 == b".." || b.0.is_empty() {
        return None;
    }
    let mut v = b"/d/".to_vec();
    v.extend_from_slice(&b.0);
    Some(B(v))
}

fn sig_of(args: &Vec<B>) -> Vec<String> {
    let mut s = vec![];
    for a in args {
        if a.0.contains(&b'~') {
            s.push("has-tilde".to_string());
        }
        if a.0.iter().any(|b| *b >= 0x80) {
            s.push("has-non-ascii".to_string());
        }
    }
    s.sort();
    s.dedup();
    s
}

pub fn arg_strategy(max_len: usize) -> impl Strategy<Value = B> + Clone {
    let sym = prop_oneof![
        6 => (0u16..u16::MAX).prop_map(|i| ALPHABET[pick(i, ALPHABET.len())].to_vec()),
        3 => (0u16..u16::MAX).prop_map(|i| EXTRA[pick(i, EXTRA.len())].to_vec()),
        2 => (1u8..=255u8).prop_map(|b| vec![b]),
        2 => any::<char>().prop_filter("nul", |c| *c != '\0').prop_map(|c| c.to_string().into_bytes()),
        2 => "[a-zA-Z0-9/._-]{1,6}".prop_map(|s| s.into_bytes()),
    ];
    proptest::collection::vec(sym, 1..max_len).prop_map(|v| B(v.concat()))
}

pub fn run_case(args: &Vec<B>, _n: u64) -> Verdict {
    if args.is_empty() || args.iter().any(|a| a.0.is_empty() || a.0.contains(&0)) {
        return Verdict::Discard("empty-or-nul".into());
    }
    verdict_for(args, true)
}

pub fn check(tier: Tier) -> i32 {
    let ctx = Ctx::new("C17", tier);
    std::panic::set_hook(Box::new(|_| {}));
    replay_corpus::<Vec<B>, _>(&ctx, run_case);

    // Tier A: bounded-exhaustive single strings, in-process + bash.
    let maxlen = tier.pick(3, 4);
    let mut singles = strings_upto(maxlen);
    // plus: every string of <=2 (quick) / <=3 (thorough) symbols over the union with the extra symbols
    let union: Vec<&[u8]> = ALPHABET.iter().chain(EXTRA.iter()).copied().collect();
    let more = strings_over(&union, tier.pick(2, 3));
    let known: std::collections::HashSet<B> = singles.iter().cloned().collect();
    singles.extend(more.into_iter().filter(|b| !known.contains(b)));
    ctx.set_extra("exhaustive_single_strings", json!({"alphabet": 20, "max_len": maxlen, "count": singles.len()}));
    // batch through bash in chunks handled by workers
    let chunks: Vec<Vec<B>> = singles.chunks(2000).map(|c| c.to_vec()).collect();
    let bulk_eval = AtomicU64::new(0);
    let bulk_nontriv = AtomicU64::new(0);
    let next = AtomicU64::new(0);
    std::thread::scope(|sc| {
        for _ in 0..ctx.workers {
            sc.spawn(|| loop {
                let i = next.fetch_add(1, Ordering::Relaxed) as usize;
                if i >= chunks.len() {
                    break;
                }
                let mut items = vec![];
                for b in &chunks[i] {
                    bulk_eval.fetch_add(1, Ordering::Relaxed);
                    match check_inproc(std::slice::from_ref(b)) {
                        Ok(nq) => {
                            if nq {
                                bulk_nontriv.fetch_add(1, Ordering::Relaxed);
                            }
                            items.push((b.clone(), quote(b.os())));
                            if let Some(p) = as_path(b) {
                                let fp = fclones::Path::from(bytes_path(&p.0));
                                items.push((p, fp.quote()));
                            }
                        }
                        Err((clause, detail)) => {
                            let case = vec![b.clone()];
                            let v = Verdict::Fail { clause, detail, sig: sig_of(&case) };
                            ctx.report_limited(&case, &v, 2);
                        }
                    }
                }
                for (b, q, d) in bash_check(&items) {
                    let case = vec![b.clone()];
                    let v = Verdict::Fail {
                        clause: "bash-decode".into(),
                        detail: format!("bash decodes {:?} (quoted form of {:?}) as {:?}", q, b, d),
                        sig: sig_of(&case),
                    };
                    ctx.report_limited(&case, &v, 2);
                }
            });
        }
    });

    // Tier B: bounded-exhaustive lists, in-process only (join/split).
    // quick: all pairs of strings of length <= 2 and all triples of length-1 strings plus a
    // strided sample of triples; thorough: all lists of <= 3 strings of length <= 2.
    let short = strings_upto(2); // 420
    let n = short.len();
    let list_count = AtomicU64::new(0);
    let next = AtomicU64::new(0);
    std::thread::scope(|sc| {
        for _ in 0..ctx.workers {
            sc.spawn(|| loop {
                let i = next.fetch_add(1, Ordering::Relaxed) as usize;
                if i >= n {
                    break;
                }
                let mut local = 0u64;
                let mut local_nt = 0u64;
                let mut check_list = |l: &[B]| {
                    local += 1;
                    match check_inproc(l) {
                        Ok(nq) => {
                            if nq {
                                local_nt += 1
                            }
                        }
                        Err((clause, detail)) => {
                            let case = l.to_vec();
                            let v = Verdict::Fail { clause, detail, sig: sig_of(&case) };
                            ctx.report_limited(&case, &v, 2);
                        }
                    }
                };
                for j in 0..n {
                    let pair = [short[i].clone(), short[j].clone()];
                    check_list(&pair);
                    match tier {
                        Tier::Thorough => {
                            for k in 0..n {
                                check_list(&[short[i].clone(), short[j].clone(), short[k].clone()]);
                            }
                        }
                        Tier::Quick => {
                            if i < 20 && j < 20 {
                                for k in 0..20 {
                                    check_list(&[short[i].clone(), short[j].clone(), short[k].clone()]);
                                }
                            }
                            let mut k = (i * 31 + j * 7) % 97;
                            while k < n {
                                check_list(&[short[i].clone(), short[j].clone(), short[k].clone()]);
                                k += 97;
                            }
                        }
                    }
                }
                list_count.fetch_add(local, Ordering::Relaxed);
                bulk_eval.fetch_add(local, Ordering::Relaxed);
                bulk_nontriv.fetch_add(local_nt, Ordering::Relaxed);
            });
        }
    });
    ctx.set_extra("exhaustive_lists_checked", json!(list_count.load(Ordering::Relaxed)));
    ctx.evaluations.fetch_add(bulk_eval.load(Ordering::Relaxed), Ordering::Relaxed);
    ctx.set_extra("bulk_distinct_nontrivial", json!(bulk_nontriv.load(Ordering::Relaxed)));
    ctx.bulk_nontrivial.fetch_add(bulk_nontriv.load(Ordering::Relaxed), Ordering::Relaxed);
    {
        let mut s = ctx.samples.lock().unwrap();
        for i in [5usize, 100, 777, 4000, 8000] {
            if i < singles.len() {
                s.push(json!({"arg": singles[i], "quoted": quote(singles[i].os())}));
            }
        }
    }

    // Tier C: random long strings and lists, with shrinking (in-process + bash).
    drive(&ctx, "random", tier.pick(12000, 100000), || proptest::collection::vec(arg_strategy(40), 1..4), run_case);
    drive(&ctx, "long", tier.pick(3000, 20000), || proptest::collection::vec(arg_strategy(300), 1..2), run_case);
    // the same under the C locale (cron, minimal containers): quoting and splitting are byte-exact
    // whatever LC_ALL / LANG say; bash inherits the locale. (No worker thread is alive between two
    // drives, so changing the environment of this process here is race-free.)
    {
        let saved: Vec<(&str, Option<std::ffi::OsString>)> = ["LC_ALL", "LC_CTYPE", "LANG"].iter().map(|k| (*k, std::env::var_os(k))).collect();
        std::env::set_var("LC_ALL", "C");
        std::env::set_var("LANG", "C");
        std::env::remove_var("LC_CTYPE");
        drive(&ctx, "random-c-locale", tier.pick(4000, 30000), || proptest::collection::vec(arg_strategy(40), 1..4), run_case);
        for (k, v) in saved {
            match v {
                Some(v) => std::env::set_var(k, v),
                None => std::env::remove_var(k),
            }
        }
    }

    // Clause (5): split never panics on arbitrary text.
    let text = || proptest::collection::vec(
        prop_oneof![
            (0u16..u16::MAX).prop_map(|i| String::from_utf8_lossy(ALPHABET[pick(i, ALPHABET.len())]).to_string()),
            Just("$'".to_string()),
            Just("\\x".to_string()),
            Just("\\".to_string()),
            any::<char>().prop_map(|c| c.to_string()),
        ],
        0..30,
    )
    .prop_map(|v| v.concat());
    drive(&ctx, "split-total", tier.pick(60000, 600000), text, |s: &String, _| {
        match catch_unwind(|| split(s)) {
            Ok(_) => Verdict::pass(s.contains("$'"), &["split-arbitrary-text"]),
            Err(_) => Verdict::fail("split-panics", format!("split({:?}) panicked", s)),
        }
    });

    ctx.finish(
        "exploration",
        "bounded-exhaustive: every string of <=3 (quick) / <=4 (thorough) symbols over the 20-symbol alphabet through quote->split, quote->bash, Path::quote->bash; every list of <=2 (quick, plus strided triples) / <=3 (thorough) strings of <=2 symbols through join->split; random strings up to 300 symbols and lists of up to 3 through all oracles with shrinking, a part of them with LC_ALL=C LANG=C for this process and for bash; random text through split. Non-trivial = at least one argument whose quoted form differs from the raw bytes; distinct by construction (enumeration) or by case digest (random).",
        &["bash 5.x found on PATH is the reference shell decoder", "arguments are non-empty and NUL-free"],
    )
}

pub fn replay(file: &std::path::Path) -> i32 {
    replay_one::<Vec<B>, _>("C17", file, run_case)
}
