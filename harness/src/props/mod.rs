pub mod c17;
