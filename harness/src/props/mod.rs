pub mod c17;
pub mod grouping;
