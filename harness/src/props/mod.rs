pub mod c17;
pub mod grouping;
pub mod c06;
pub mod c13;
pub mod c14;
pub mod c02;
pub mod c08;
