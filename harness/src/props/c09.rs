//! C09 The scan selects exactly the files the options describe.

use crate::common::*;
use crate::ded::escape_glob;
use crate::glob::ref_match;
use crate::grp::*;
use crate::model::*;
use crate::report::*;
use crate::run::*;
use crate::tree::*;
use crate::util::*;
use proptest::prelude::*;
use serde::{Deserialize, Serialize};
use std::collections::BTreeSet;
use std::ffi::OsString;
use std::path::{Path, PathBuf};

#[derive(Clone, Debug, Serialize, Deserialize)]
pub struct PatG {
    /// 0 exact, 1 first-char*, 2 *last-char, 3 ?-substituted, 4 dir/*, 5 dir/**, 6 **/name, 7 {name,zz}
    pub kind: u8,
    pub sel: u16,
    pub relative: bool,
}

#[derive(Clone, Debug, Serialize, Deserialize)]
pub struct C09Case {
    pub tree: TreeSpec,
    pub roots: usize,
    pub depth: Option<usize>,
    pub hidden: bool,
    pub no_ignore: bool,
    pub follow_links: bool,
    pub symbolic_links: bool,
    pub min: Option<u64>,
    pub max: Option<u64>,
    pub names: Vec<PatG>,
    pub paths: Vec<PatG>,
    pub excludes: Vec<PatG>,
    pub ignore_case: bool,
    pub regex: bool,
    pub one_fs: bool,
    /// working directory: None = tree root, Some(i) = directory of the i-th built directory entry
    pub cwd_sel: Option<u16>,
    pub extra_roots: Vec<u16>,
    /// feed the input paths through --stdin
    #[serde(default)]
    pub stdin: bool,
    /// patterns of a user-level ignore file ($XDG_CONFIG_HOME/git/ignore); only written together
    /// with --no-ignore, where the documented outcome is unambiguous (nothing is ignored)
    #[serde(default)]
    pub global_ignore: Vec<u16>,
}

const NAMES: [&str; 19] = ["a", "b", "c", "ab", "a.b", "a-b", "a+b", "(a)", "ż", "A", "Ab", "v-1", "x.txt", "y.TXT", ".h", ".hid.txt", "a b", "[x]", "Ż"];
const IGNORE_PATTERNS: [&str; 12] = ["a", "b", "*.txt", "/a", "/ab", "ab/", "c/", "!a", "!x.txt", "*.b", "ż", "v-1"];

fn name_s() -> BoxedStrategy<B> {
    (0u16..u16::MAX).prop_map(|i| B::s(NAMES[pick(i, NAMES.len())])).boxed()
}

pub fn tree_s(roots: usize, with_ignore: bool) -> BoxedStrategy<TreeSpec> {
    let path = (0..roots, proptest::collection::vec(name_s(), 0..4), name_s()).prop_map(|(r, dirs, name)| {
        let mut v = vec![B::s(ROOT_NAMES[r])];
        v.extend(dirs);
        v.push(name);
        v
    });
    let kind = prop_oneof![
        10 => (0u32..3, prop_oneof![Just(0u64), Just(1), Just(5), Just(100), Just(5000)]).prop_map(|(class, size)| Kind::File(Content { class, size, flip: None })),
        2 => Just(Kind::Dir),
        1 => (0u16..u16::MAX).prop_map(Kind::Hardlink),
        3 => ((0u16..u16::MAX), prop_oneof![4 => Just(LinkStyle::Relative), 3 => Just(LinkStyle::Absolute), 2 => Just(LinkStyle::AbsoluteDotDot), 1 => Just(LinkStyle::Dangling), 1 => Just(LinkStyle::SelfCycle)]).prop_map(|(s, st)| Kind::Symlink(s, st)),
    ];
    let entry = (path.clone(), kind, 0u32..100).prop_map(|(path, kind, mtime)| Entry { path, kind, mtime });
    let ignore = (0..roots, proptest::collection::vec(name_s(), 0..2), any::<bool>(), proptest::collection::vec((0u16..u16::MAX).prop_map(|i| IGNORE_PATTERNS[pick(i, IGNORE_PATTERNS.len())]), 1..4)).prop_map(
        |(r, dirs, git, pats)| {
            let mut v = vec![B::s(ROOT_NAMES[r])];
            v.extend(dirs);
            v.push(B::s(if git { ".gitignore" } else { ".fdignore" }));
            Entry { path: v, kind: Kind::Literal(B(format!("{}\n", pats.join("\n")).into_bytes())), mtime: 0 }
        },
    );
    (proptest::collection::vec(entry, 4..16), proptest::collection::vec(ignore, if with_ignore { 0..3 } else { 0..1 }))
        .prop_map(move |(entries, ignores)| {
            let mut all: Vec<Entry> = (0..roots).map(|r| Entry { path: vec![B::s(ROOT_NAMES[r])], kind: Kind::Dir, mtime: 0 }).collect();
            // ignore files first, at most one per directory (both in one directory is outside the domain)
            let mut seen: BTreeSet<Vec<B>> = BTreeSet::new();
            for ig in ignores {
                let dir = ig.path[..ig.path.len() - 1].to_vec();
                if seen.insert(dir) {
                    all.push(ig);
                }
            }
            all.extend(entries);
            TreeSpec { entries: all }
        })
        .boxed()
}

fn case_strategy() -> BoxedStrategy<C09Case> {
    (1usize..=2, any::<bool>())
        .prop_flat_map(|(roots, follow)| {
            let pat = || (0u8..8, 0u16..u16::MAX, any::<bool>()).prop_map(|(kind, sel, relative)| PatG { kind, sel, relative });
            let pats = |w: u32| prop_oneof![10 - w => Just(vec![]), w => proptest::collection::vec(pat(), 1..3)];
            (
                // ignore files only without -L (ignore rules along followed links are outside the documented domain)
                tree_s(roots, !follow),
                (prop::option::weighted(0.4, 0usize..6), any::<bool>(), prop::bool::weighted(0.3), prop::bool::weighted(0.4)),
                (prop::option::weighted(0.3, prop_oneof![Just(0u64), Just(1), Just(2), Just(100)]), prop::option::weighted(0.2, prop_oneof![Just(1u64), Just(5), Just(100)])),
                (pats(3), pats(3), pats(3)),
                (prop::bool::weighted(0.3), prop::bool::weighted(0.15), prop::bool::weighted(0.3)),
                prop::option::weighted(0.4, 0u16..u16::MAX),
                proptest::collection::vec(0u16..u16::MAX, 0..3),
                (prop::bool::weighted(0.2), prop_oneof![1 => Just(vec![]), 1 => proptest::collection::vec(0u16..u16::MAX, 1..4)]),
            )
                .prop_map(move |(tree, (depth, hidden, no_ignore, symbolic_links), (min, max), (names, paths, excludes), (ignore_case, regex, one_fs), cwd_sel, extra_roots, (stdin, global_ignore))| C09Case {
                    tree,
                    roots,
                    depth,
                    hidden,
                    no_ignore,
                    follow_links: follow,
                    symbolic_links,
                    min,
                    max,
                    names,
                    // whether path patterns prune the *route* through a followed link or only the
                    // reported path is not documented: no --path/--exclude together with -L
                    paths: if follow { vec![] } else { paths },
                    excludes: if follow { vec![] } else { excludes },
                    ignore_case,
                    regex,
                    one_fs,
                    cwd_sel,
                    extra_roots,
                    stdin,
                    global_ignore,
                })
        })
        .boxed()
}

fn flip_case(s: &str) -> String {
    s.chars().map(|c| if c.is_ascii_lowercase() { c.to_ascii_uppercase() } else if c.is_ascii_uppercase() { c.to_ascii_lowercase() } else { c }).collect()
}

fn regex_escape(s: &str) -> String {
    let mut out = String::new();
    for c in s.chars() {
        if "\\.+*?()|[]{}^$#&-~".contains(c) {
            out.push('\\');
        }
        out.push(c);
    }
    out
}

/// A generated pattern: the text given to fclones and a reference predicate over the full path
/// (or the file name for --name).
struct RPat {
    text: String,
    pred: Box<dyn Fn(&str) -> bool>,
}

fn rel_to(cwd: &Path, abs: &str) -> Option<String> {
    let c = cwd.to_string_lossy().to_string();
    abs.strip_prefix(&format!("{}/", c)).map(|s| s.to_string())
}

fn make_pattern(g: &PatG, files: &[PathBuf], cwd: &Path, for_name: bool, c: &C09Case) -> Option<RPat> {
    if files.is_empty() {
        return None;
    }
    let f = &files[pick(g.sel, files.len())];
    let name = f.file_name()?.to_str()?.to_string();
    let dir = f.parent()?.to_str()?.to_string();
    let full = f.to_str()?.to_string();
    let ci = c.ignore_case;
    let adjust = |s: String| if ci { flip_case(&s) } else { s };
    if c.regex {
        // a small regex grammar: literal, literal prefix + .*, .* + literal suffix
        let (text, kind): (String, u8) = if for_name {
            match g.kind % 3 {
                0 => (regex_escape(&name), 0),
                1 => (format!("{}.*", regex_escape(&name.chars().next()?.to_string())), 1),
                _ => (format!(".*{}", regex_escape(&name.chars().last()?.to_string())), 2),
            }
        } else {
            match g.kind % 4 {
                0 => (regex_escape(&full), 0),
                1 => (format!("{}/.*", regex_escape(&dir)), 1),
                2 => (format!(".*/{}", regex_escape(&name)), 2),
                _ => {
                    // an optional character (absent from all generated names) inside the literal
                    // directory part: "<dir minus last char>q?<last char>/.*"
                    let mut chars: Vec<char> = dir.chars().collect();
                    let last = chars.pop()?;
                    let head: String = chars.into_iter().collect();
                    (format!("{}q?{}/.*", regex_escape(&head), regex_escape(&last.to_string())), 1)
                }
            }
        };
        let text = adjust(text);
        let (name2, dir2, full2) = (name.clone(), dir.clone(), full.clone());
        let eq = move |a: &str, b: &str| if ci { a.to_lowercase() == b.to_lowercase() } else { a == b };
        let pred: Box<dyn Fn(&str) -> bool> = if for_name {
            match kind {
                0 => Box::new(move |s| eq(s, &name2)),
                1 => Box::new(move |s| {
                    let first = name2.chars().next().unwrap();
                    s.chars().next().map(|x| eq(&x.to_string(), &first.to_string())).unwrap_or(false) && !s.contains('\n')
                }),
                _ => Box::new(move |s| {
                    let last = name2.chars().last().unwrap();
                    s.chars().last().map(|x| eq(&x.to_string(), &last.to_string())).unwrap_or(false) && !s.contains('\n')
                }),
            }
        } else {
            match kind {
                0 => Box::new(move |s| eq(s, &full2)),
                1 => Box::new(move |s| {
                    let pre = format!("{}/", dir2);
                    s.len() >= pre.len() && s.is_char_boundary(pre.len()) && eq(&s[..pre.len()], &pre) && !s.contains('\n')
                }),
                _ => Box::new(move |s| {
                    let suf = format!("/{}", name2);
                    s.len() >= suf.len() && s.is_char_boundary(s.len() - suf.len()) && eq(&s[s.len() - suf.len()..], &suf) && !s.contains('\n')
                }),
            }
        };
        return Some(RPat { text, pred });
    }
    // globs
    let glob_abs: String = if for_name {
        match g.kind % 8 {
            0 | 4 | 5 | 6 => escape_glob(&name),
            1 => format!("{}*", escape_glob(&name.chars().next()?.to_string())),
            2 => format!("*{}", escape_glob(&name.chars().last()?.to_string())),
            3 => "?".repeat(name.chars().count()),
            _ => format!("{{{},zz}}", escape_glob(&name)),
        }
    } else {
        match g.kind % 8 {
            0 | 1 | 2 => escape_glob(&full),
            3 => format!("{}/{}", escape_glob(&dir), "?".repeat(name.chars().count())),
            4 => format!("{}/*", escape_glob(&dir)),
            5 => format!("{}/**", escape_glob(&dir)),
            6 => format!("**/{}", escape_glob(&name)),
            _ => format!("{}/{{{},zz}}", escape_glob(&dir), escape_glob(&name)),
        }
    };
    let glob_abs = adjust(glob_abs);
    // relative spelling: only when the pattern lies below the working directory
    let cwd_glob = adjust(escape_glob(&cwd.to_string_lossy()));
    let text = if !for_name && g.relative && !glob_abs.starts_with("**") {
        match glob_abs.strip_prefix(&format!("{}/", cwd_glob)) {
            // a pattern that starts with ** matches from the file system root, it is not relative
            Some(r) if !r.starts_with("**") && !r.starts_with('/') => r.to_string(),
            _ => glob_abs.clone(),
        }
    } else {
        glob_abs.clone()
    };
    let _ = rel_to;
    // reference: a relative pattern means <cwd>/<pattern>; the cwd part is literal
    let reference_glob = if text == glob_abs { glob_abs.clone() } else { format!("{}/{}", escape_glob(&cwd.to_string_lossy()), text) };
    let pred: Box<dyn Fn(&str) -> bool> = Box::new(move |s| ref_match(&reference_glob, s, ci).unwrap_or(false));
    Some(RPat { text, pred })
}

/// gitignore subset: `name`, `*.ext`, `/anchored`, `dir/`, `!negation` (within one file).
fn ignore_fn() -> impl Fn(&Path, &Path, bool) -> bool {
    move |tree: &Path, p: &Path, is_dir: bool| {
        // every ignore file in an ancestor directory at or below the input path through which the
        // entry is reached is consulted independently
        let mut anc = p.parent();
        while let Some(dir) = anc {
            if !dir.starts_with(tree) {
                break;
            }
            let mut file = dir.join(".gitignore");
            if !file.is_file() {
                file = dir.join(".fdignore");
            }
            if let Ok(text) = std::fs::read_to_string(&file) {
                let rel = p.strip_prefix(dir).unwrap();
                // a path is ignored if it or one of its parent directories (below `dir`) is matched
                let mut cur = PathBuf::new();
                let comps: Vec<_> = rel.components().collect();
                for (i, comp) in comps.iter().enumerate() {
                    cur.push(comp.as_os_str());
                    let this_is_dir = i + 1 < comps.len() || is_dir;
                    let name = comp.as_os_str().to_string_lossy().to_string();
                    let mut verdict = false;
                    for line in text.lines() {
                        let (neg, pat) = match line.strip_prefix('!') {
                            Some(r) => (true, r),
                            None => (false, line),
                        };
                        if pat.is_empty() {
                            continue;
                        }
                        let (dir_only, pat) = match pat.strip_suffix('/') {
                            Some(r) => (true, r),
                            None => (false, pat),
                        };
                        if dir_only && !this_is_dir {
                            continue;
                        }
                        let m = if let Some(anch) = pat.strip_prefix('/') {
                            i == 0 && ref_match(anch, &name, false).unwrap_or(false)
                        } else {
                            ref_match(pat, &name, false).unwrap_or(false)
                        };
                        if m {
                            verdict = !neg;
                        }
                    }
                    if verdict {
                        return true;
                    }
                }
            }
            if dir == tree {
                break;
            }
            anc = dir.parent();
        }
        false
    }
}

pub fn run_case(c: &C09Case, n: u64) -> Verdict {
    let cd = CaseDir::new("c09", n, Fs::Tmpfs);
    let tree = cd.tree();
    let built = c.tree.build(&tree);
    // a directory on the other device, reachable through a symlink (for --one-fs)
    let other = PathBuf::from(format!("/var/tmp/fcvw/p{}/ofs{}", std::process::id(), n));
    let mut have_other = false;
    if c.follow_links {
        let _ = std::fs::create_dir_all(other.join("sub"));
        let _ = std::fs::write(other.join("o1"), b"other-device-1");
        let _ = std::fs::write(other.join("sub/o2"), b"other-device-1");
        have_other = std::os::unix::fs::symlink(&other, tree.join(ROOT_NAMES[0]).join("to_other_fs")).is_ok();
        // and a regular file there, reachable through a symlink of its own
        let _ = std::fs::write(other.join("o3"), b"other-device-3");
        let _ = std::os::unix::fs::symlink(other.join("o3"), tree.join(ROOT_NAMES[0]).join("to_other_file"));
    }
    let v = judge(c, &cd, &built, have_other);
    let _ = std::fs::remove_dir_all(&other);
    v
}

fn judge(c: &C09Case, cd: &CaseDir, built: &Built, have_other: bool) -> Verdict {
    let tree = cd.tree();
    let dirs: Vec<PathBuf> = built.entries.iter().filter(|e| e.kind == BuiltKind::Dir).map(|e| e.abs.clone()).collect();
    let cwd = match c.cwd_sel {
        Some(s) if !dirs.is_empty() => dirs[pick(s, dirs.len())].clone(),
        _ => tree.clone(),
    };
    let files: Vec<PathBuf> = built.entries.iter().filter(|e| matches!(e.kind, BuiltKind::File | BuiltKind::Hardlink(_))).map(|e| e.abs.clone()).collect();
    // roots: absolute (cwd may be anywhere), plus overlapping / repeated ones
    let mut roots: Vec<PathBuf> = root_paths(&tree, c.roots);
    for s in &c.extra_roots {
        if !dirs.is_empty() {
            roots.push(dirs[pick(*s, dirs.len())].clone());
        }
    }
    if c.stdin {
        // lines of --stdin are paths, byte for byte: a root whose name begins and ends with a blank
        let ws = tree.join(" pad ");
        if std::fs::create_dir_all(&ws).is_ok() {
            let _ = std::fs::write(ws.join(" f "), b"blank-padded");
            let _ = std::fs::write(ws.join("g"), b"blank-padded");
            roots.push(ws);
        }
    }
    let mut args: Vec<OsString> = vec!["group".into(), "--rf-over".into(), "0".into(), "-f".into(), "json".into()];
    let mut sig: Vec<String> = vec![];
    if let Some(d) = c.depth {
        args.push("--depth".into());
        args.push(d.to_string().into());
        sig.push("depth".into());
    }
    if c.hidden {
        args.push("--hidden".into());
    }
    if c.no_ignore {
        args.push("--no-ignore".into());
    }
    if c.follow_links {
        args.push("-L".into());
        sig.push("follow-links".into());
    }
    if c.symbolic_links {
        args.push("-S".into());
        sig.push("symbolic-links".into());
    }
    if let Some(m) = c.min {
        args.push("--min".into());
        args.push(m.to_string().into());
    }
    if let Some(m) = c.max {
        args.push("--max".into());
        args.push(m.to_string().into());
    }
    if c.ignore_case {
        args.push("-i".into());
        sig.push("ignore-case".into());
    }
    if c.regex {
        args.push("--regex".into());
        sig.push("regex".into());
    }
    if c.one_fs {
        args.push("--one-fs".into());
        sig.push("one-fs".into());
    }
    let mut name_p = vec![];
    let mut path_p = vec![];
    let mut excl_p = vec![];
    for (flag, specs, for_name, dst) in [("--name", &c.names, true, 0), ("--path", &c.paths, false, 1), ("--exclude", &c.excludes, false, 2)] {
        for g in specs {
            if let Some(p) = make_pattern(g, &files, &cwd, for_name, c) {
                args.push(flag.into());
                args.push(p.text.clone().into());
                if !for_name && !p.text.starts_with('/') && !p.text.starts_with("**") && !p.text.starts_with(".*") {
                    sig.push("relative-pattern".into());
                }
                match dst {
                    0 => name_p.push(p),
                    1 => path_p.push(p),
                    _ => excl_p.push(p),
                }
            }
        }
    }
    if c.no_ignore && !c.global_ignore.is_empty() {
        let pats: Vec<&str> = c.global_ignore.iter().map(|i| IGNORE_PATTERNS[pick(*i, IGNORE_PATTERNS.len())]).collect();
        let dir = cd.base.join("config").join("git");
        let _ = std::fs::create_dir_all(&dir);
        let _ = std::fs::write(dir.join("ignore"), format!("{}\n", pats.join("\n")));
        sig.push("user-level-ignore-file-with-no-ignore".into());
    }
    let mut run = Run::fclones(cd).cwd(&cwd);
    let cmdline;
    if c.stdin {
        args.push("--stdin".into());
        let input: Vec<u8> = roots.iter().flat_map(|r| [path_bytes(r), b"\n".to_vec()].concat()).collect();
        run = run.args(&args).stdin(input);
        cmdline = format!("cd {} && printf '%s\\n' {} | {}", cwd.display(), roots.iter().map(|r| r.display().to_string()).collect::<Vec<_>>().join(" "), run.cmdline());
        sig.push("roots-from-stdin".into());
    } else {
        args.extend(roots.iter().map(|r| r.clone().into_os_string()));
        run = run.args(&args);
        cmdline = format!("cd {} && {}", cwd.display(), run.cmdline());
    }
    let out = run.run();
    sig.sort();
    sig.dedup();
    let non_ascii = args.iter().any(|a| !a.to_string_lossy().is_ascii()) || !cwd.to_string_lossy().is_ascii();
    // literal prefixes (absolute form) of the glob --path patterns: the open finding (byte length used as
    // a character count in the pruning test) needs non-ASCII text in such a prefix and strikes only
    // directories at least as long, in bytes, as the prefix minus its last character
    let glob_prefixes: Vec<String> = if c.regex {
        vec![]
    } else {
        path_p
            .iter()
            .map(|p| {
                let mut lit = if p.text.starts_with('/') || p.text.starts_with("**") { String::new() } else { format!("{}/", cwd.to_string_lossy()) };
                let mut it = p.text.chars();
                while let Some(ch) = it.next() {
                    if ch == '\\' {
                        if let Some(n) = it.next() {
                            lit.push(n);
                        }
                    } else if "*?[{@+".contains(ch) {
                        break;
                    } else {
                        lit.push(ch);
                    }
                }
                lit
            })
            .collect()
    };
    let attributable = move |missing: &[Vec<u8>]| -> bool {
        if c.regex {
            return non_ascii;
        }
        !missing.is_empty()
            && missing.iter().all(|m| {
                let dir_len = bytes_path(m).parent().map(|d| d.as_os_str().len()).unwrap_or(0);
                glob_prefixes.iter().any(|l| !l.is_ascii() && dir_len >= l.char_indices().last().map(|(i, _)| i).unwrap_or(0))
            })
    };
    let fail = |clause: &str, detail: String| Verdict::Fail { clause: clause.into(), detail: format!("{}\n{}\n{}", cmdline, detail, out.brief()), sig: sig.clone() };
    if out.timed_out {
        return Verdict::Inconclusive("timeout".into());
    }
    if out.crashed() {
        return fail("crash", String::new());
    }
    if !out.ok() {
        let s = out.stderr_s();
        if s.contains("No input files") || s.contains("error:") {
            return Verdict::Discard("rejected".into());
        }
        return fail("error-exit", String::new());
    }
    let report = match parse_json(&out.stdout) {
        Ok(r) => r,
        Err(e) => return fail("unparsable-report", e),
    };
    let mut got: Vec<Vec<u8>> = report.groups.iter().flat_map(|g| g.files.iter().cloned()).collect();
    got.sort();
    let got_set: BTreeSet<Vec<u8>> = got.iter().cloned().collect();
    if got_set.len() != got.len() {
        return fail("file-listed-twice", format!("{:?}", got.iter().map(|p| B(p.clone())).collect::<Vec<_>>()));
    }
    // reference
    let wo = WalkOpts {
        depth: c.depth,
        hidden: c.hidden,
        follow_links: c.follow_links,
        symbolic_links: c.symbolic_links,
        min_size: c.min.unwrap_or(1),
        max_size: c.max,
        one_fs: c.one_fs,
    };
    let ign = ignore_fn();
    let no_ignore = c.no_ignore;
    let ignored = move |root: &Path, p: &Path, is_dir: bool| !no_ignore && ign(root, p, is_dir);
    let select = |p: &Path| {
        let full = p.to_string_lossy().to_string();
        let name = p.file_name().map(|n| n.to_string_lossy().to_string()).unwrap_or_default();
        (name_p.is_empty() || name_p.iter().any(|q| (q.pred)(&name))) && (path_p.is_empty() || path_p.iter().any(|q| (q.pred)(&full))) && excl_p.iter().all(|q| !(q.pred)(&full))
    };
    let expected = reference_walk(&roots, &wo, &ignored, &select);
    let exp_set: BTreeSet<Vec<u8>> = expected.iter().map(|f| f.path.clone()).collect();
    if got_set != exp_set {
        let missing: Vec<B> = exp_set.difference(&got_set).map(|p| B(p.clone())).collect();
        let extra: Vec<B> = got_set.difference(&exp_set).map(|p| B(p.clone())).collect();
        let clause = if !missing.is_empty() { "selected-file-missed" } else { "unselected-file-scanned" };
        if !missing.is_empty() && attributable(&missing.iter().map(|b| b.0.clone()).collect::<Vec<_>>()) {
            let mut s2 = sig.clone();
            s2.push("non-ascii-in-pattern-or-cwd".into());
            let listing: Vec<String> = built.entries.iter().map(|e| format!("{}{}", e.abs.strip_prefix(&tree).unwrap_or(&e.abs).display(), match e.kind { BuiltKind::Dir => "/", BuiltKind::Symlink => "@", _ => "" })).collect();
            return Verdict::Fail { clause: clause.into(), detail: format!("{}\nmissing: {:?}\nextra: {:?}\ntree: {}\n{}", cmdline, missing, extra, listing.join(" "), out.brief()), sig: s2 };
        }
        let listing: Vec<String> = built.entries.iter().map(|e| format!("{}{}", e.abs.strip_prefix(&tree).unwrap_or(&e.abs).display(), match e.kind { BuiltKind::Dir => "/", BuiltKind::Symlink => "@", _ => "" })).collect();
        return fail(clause, format!("missing: {:?}\nextra: {:?}\ntree: {}", missing, extra, listing.join(" ")));
    }
    let all_files = files.len();
    let deep_or_meta = expected.iter().any(|f| {
        let p = bytes_path(&f.path);
        let rel = p.strip_prefix(&tree).map(|r| r.components().count()).unwrap_or(0);
        rel > 2 || p.parent().map(|d| d.to_string_lossy().chars().any(|ch| ".-+()[]".contains(ch) || !ch.is_ascii())).unwrap_or(false)
    });
    let nontrivial = !expected.is_empty() && expected.len() != all_files && deep_or_meta;
    let mut classes = sig.clone();
    if have_other {
        classes.push("other-device-reachable".into());
    }
    if !c.names.is_empty() || !c.paths.is_empty() || !c.excludes.is_empty() {
        classes.push("patterns".into());
    }
    Verdict::Pass { nontrivial, classes }
}

pub fn check(tier: Tier) -> i32 {
    let ctx = Ctx::new("C09", tier);
    replay_corpus::<C09Case, _>(&ctx, run_case);
    drive(&ctx, "main", tier.pick(12000, 100000), case_strategy, run_case);
    cleanup_process_scratch();
    ctx.finish(
        "exploration",
        "proptest-generated trees (nesting 0-4, names with regex metacharacters, blanks, brackets, non-ASCII and leading dots, .gitignore/.fdignore files from a restricted grammar {name, *.ext, /anchored, dir/, !negation within one file}, hard links, relative/absolute (canonical or through `..`)/dangling/cyclic symlinks, a sub-tree and a single file on the other device reached through symlinks) x --depth 0-5, --hidden, --no-ignore, -L, -S, --min/--max, --name/--path/--exclude as globs or (small grammar) regexes, absolute or relative to a working directory inside the tree, -i with case-flipped patterns, --one-fs, overlapping and repeated roots given as arguments or through --stdin (there with one more root whose name begins and ends with a blank); with --no-ignore, half of the cases also have a user-level ignore file ($XDG_CONFIG_HOME/git/ignore) that must then have no effect. Observation: `group --rf-over 0 -f json` lists every selected file. Oracle: reference walk written from README/--help (pruning does not exist in it): exact set equality, no path twice. Non-trivial = the expected set is non-empty, differs from 'all files' and contains a file deeper than level 2 or below a directory with a metacharacter / non-ASCII name.",
        &["outside the generated domain (documentation does not settle them): hidden root names, .gitignore and .fdignore in one directory, negation in a deeper ignore file overriding a parent's rule, ignore files together with -L", "regex mode uses three pattern shapes with a reference predicate each"],
    )
}

pub fn replay(file: &std::path::Path) -> i32 {
    replay_one::<C09Case, _>("C09", file, run_case)
}
