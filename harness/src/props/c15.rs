//! C15 An unreadable or vanishing file affects only itself (read-side fault enumeration).

use crate::common::*;
use crate::grp::*;
use crate::report::*;
use crate::run::*;
use crate::tree::*;
use crate::util::*;
use proptest::prelude::*;
use serde::{Deserialize, Serialize};
use std::collections::{BTreeMap, BTreeSet};
use std::path::{Path, PathBuf};
use std::sync::atomic::Ordering;

#[derive(Clone, Debug, Serialize, Deserialize, PartialEq)]
pub struct Inject {
    pub func: String,
    pub path: B,
    pub n: u32,
    pub errno: String,
}

#[derive(Clone, Debug, Serialize, Deserialize)]
pub struct C15Case {
    pub tree: TreeSpec,
    pub roots: usize,
    pub opts: GOpts,
    pub ext4: bool,
    /// None: enumerate; Some: exactly these injections (replay)
    pub faults: Option<Vec<Inject>>,
    pub pair_seeds: Vec<u16>,
    /// the first root is given twice (every entry below it is then visited twice)
    #[serde(default)]
    pub repeat_root: bool,
    /// directory listings report no entry types (DT_UNKNOWN, as on file systems without the filetype
    /// feature): fclones has to lstat every entry, and that call can fail too
    #[serde(default)]
    pub dtype_unknown: bool,
}

fn case_strategy() -> BoxedStrategy<C15Case> {
    (1usize..=2)
        .prop_flat_map(|roots| {
            let mut p = Profile::plain();
            p.roots = roots;
            p.files = (4, 9);
            p.max_depth = 2;
            p.max_size = 140_000;
            p.hardlinks = 2;
            p.near_dup_pairs = 1;
            p.resplit = 0;
            let op = OptProfile { transform_w: 0.15, cache_w: 0.25, links: false, isolate: false, rf: false, max_roots: roots };
            (tree_strategy(&p), gopts_strategy(op), prop::bool::weighted(0.3), proptest::collection::vec(0u16..u16::MAX, 6), prop::bool::weighted(0.25), prop::bool::weighted(0.25), prop::bool::weighted(0.3)).prop_map(
                move |(tree, mut opts, ext4, pair_seeds, skip, repeat_root, dtype_unknown)| {
                    opts.threads = vec![];
                    // without the final stage a file is judged by its prefix and suffix alone: a
                    // failed read of either must still keep it out of every group
                    opts.skip_content_hash = skip && opts.transform.is_none();
                    if opts.skip_content_hash && opts.disk == 0 {
                        opts.disk = 1; // pinned ssd: suffix stage for files above 64 KiB
                    }
                    if let Some(t) = &mut opts.transform {
                        // well-behaved transforms: fed through a pipe, or - every other time - reading the
                        // original file themselves ($IN with --no-copy), so that a read fault hits the child
                        if pair_seeds[0] % 2 == 0 && matches!(t.op, TrOp::Cat | TrOp::Upper | TrOp::Expand | TrOp::Header) {
                            t.io = TrIo::In;
                            opts.no_copy = true;
                        } else {
                            t.io = TrIo::Pipe;
                        }
                    }
                    C15Case { tree, roots, opts, ext4, faults: None, pair_seeds, repeat_root, dtype_unknown }
                },
            )
        })
        .boxed()
}

#[derive(Clone, Debug)]
struct LogLine {
    func: String,
    path: Vec<u8>,
    p2: Vec<u8>,
    ret: i64,
}

fn parse_log(log: &str) -> Vec<LogLine> {
    let mut v = vec![];
    for l in log.lines() {
        let f: Vec<&str> = l.split(' ').collect();
        if f.len() < 9 || f[2] != "R" {
            continue;
        }
        v.push(LogLine { func: f[3].to_string(), path: unesc(f[4]).unwrap_or_default(), p2: unesc(f[5]).unwrap_or_default(), ret: f[6].parse().unwrap_or(0) });
    }
    v
}

fn shim_run(cd: &CaseDir, c: &C15Case, roots: &[std::ffi::OsString], faults: &[Inject]) -> (GroupRun, String) {
    cd.reset_cache();
    let _ = std::fs::remove_file(cd.base.join("shim.log"));
    let mut r = Run::fclones(cd).arg("group").args(c.opts.args()).arg("-f").arg("json").args(roots);
    if let Some(d) = c.opts.disk_env() {
        r = r.env("FCLONES_VERIF_DISK_KIND", d);
    }
    r = r.env("LD_PRELOAD", SHIM).env("FCV_ROOT", cd.tree()).env("FCV_LOG", cd.base.join("shim.log"));
    if c.dtype_unknown {
        r = r.env("FCV_DTYPE_UNKNOWN", "1");
    }
    if !faults.is_empty() {
        let spec: Vec<String> = faults
            .iter()
            .map(|f| format!("fn={},path={},n={},errno={}", f.func, String::from_utf8_lossy(&f.path.0), f.n, f.errno))
            .collect();
        r = r.env("FCV_FAULT", spec.join(";"));
    }
    let cmdline = r.cmdline();
    let out = r.run();
    let report = if out.ok() { parse_json(&out.stdout) } else { Err(format!("exit {:?}", out.code)) };
    let log = std::fs::read_to_string(cd.base.join("shim.log")).unwrap_or_default();
    (GroupRun { out, report, cmdline }, log)
}

/// The root arguments without the one that names `root`.
fn others_for(roots: &[std::ffi::OsString], root: &Path, tree: &Path) -> Vec<std::ffi::OsString> {
    roots.iter().filter(|r| tree.join(r) != root).cloned().collect()
}

fn errnos(func: &str) -> Vec<&'static str> {
    match func {
        "stat" | "lstat" => vec!["EACCES", "EIO", "ENOENT"],
        "open" => vec!["EACCES", "EIO", "ENOENT"],
        "read" => vec!["EIO"],
        "opendir" => vec!["EACCES", "EIO", "ENOENT"],
        "readdir" => vec!["EIO"],
        "readlink" => vec!["EACCES", "EIO"],
        "fiemap" => vec!["EIO", "EOPNOTSUPP"],
        _ => vec![],
    }
}

/// Physically removes what the fault is expected to hide, runs clean, returns the expected groups.
fn expected_without(cd: &CaseDir, c: &C15Case, roots: &[std::ffi::OsString], removed: &[PathBuf]) -> Result<Vec<(u64, Vec<Vec<u8>>)>, String> {
    for x in removed {
        let _ = if x.is_dir() && !x.is_symlink() { std::fs::remove_dir_all(x) } else { std::fs::remove_file(x) };
    }
    let (r, _) = shim_run(cd, c, roots, &[]);
    // restore
    cd.reset_tree();
    c.tree.build(&cd.tree());
    r.report.map(|rep| rep.path_sets())
}

pub fn run_case(ctx: &Ctx, c: &C15Case, n: u64) -> Verdict {
    let cd = CaseDir::new("c15", n, if c.ext4 { Fs::Ext4 } else { Fs::Tmpfs });
    let tree = cd.tree();
    let built = c.tree.build(&tree);
    let mut roots = root_args(c.roots);
    if c.repeat_root {
        roots.push(roots[0].clone());
    }
    let root_paths: BTreeSet<PathBuf> = root_paths(&tree, c.roots).into_iter().collect();
    // clean recording run
    let (clean, log) = shim_run(&cd, c, &roots, &[]);
    if clean.out.timed_out {
        return Verdict::Inconclusive("timeout".into());
    }
    let clean_sets = match &clean.report {
        Ok(r) => r.path_sets(),
        Err(_) => {
            if clean.out.crashed() {
                return Verdict::fail("crash", format!("{}\n{}", clean.cmdline, clean.out.brief()));
            }
            return Verdict::Discard("clean-run-rejected".into());
        }
    };
    let grouped: BTreeSet<Vec<u8>> = clean_sets.iter().flat_map(|g| g.1.iter().cloned()).collect();
    let entries: BTreeMap<Vec<u8>, BuiltKind> = built.entries.iter().filter(|e| !root_paths.contains(&e.abs)).map(|e| (path_bytes(&e.abs), e.kind.clone())).collect();
    let lines = parse_log(&log);
    // occurrences per (func, path) on tree entries strictly below the roots
    let mut occ: BTreeMap<(String, Vec<u8>), u32> = BTreeMap::new();
    for l in &lines {
        if entries.contains_key(&l.path) && !errnos(&l.func).is_empty() {
            *occ.entry((l.func.clone(), l.path.clone())).or_insert(0) += 1;
        }
    }
    let mut singles: Vec<Inject> = vec![];
    for ((func, path), cnt) in &occ {
        // readdir: every position incl. the first; others: every occurrence (capped)
        let cap = if func == "read" { (*cnt).min(6) } else { (*cnt).min(8) };
        for k in 1..=cap {
            for e in errnos(func) {
                singles.push(Inject { func: func.clone(), path: B(path.clone()), n: k, errno: e.to_string() });
            }
        }
    }
    let plan: Vec<Vec<Inject>> = match &c.faults {
        Some(f) => vec![f.clone()],
        None => {
            let mut plan: Vec<Vec<Inject>> = singles.iter().map(|s| vec![s.clone()]).collect();
            // pairs on two different entries
            for w in c.pair_seeds.chunks(2) {
                if w.len() == 2 && singles.len() >= 2 {
                    let a = &singles[pick(w[0], singles.len())];
                    let b = &singles[pick(w[1], singles.len())];
                    if a.path != b.path {
                        plan.push(vec![a.clone(), b.clone()]);
                    }
                }
            }
            // the same read fails in both files of an equal-length pair (both then lack the same part)
            let mut by_len: BTreeMap<u64, Vec<Vec<u8>>> = BTreeMap::new();
            for ((func, path), _) in &occ {
                if func == "read" {
                    if let Ok(m) = std::fs::metadata(bytes_path(path)) {
                        by_len.entry(m.len()).or_default().push(path.clone());
                    }
                }
            }
            for paths in by_len.values() {
                for i in 0..paths.len() {
                    for j in i + 1..paths.len().min(i + 3) {
                        let ka = occ.get(&("read".to_string(), paths[i].clone())).copied().unwrap_or(0).min(6);
                        let kb = occ.get(&("read".to_string(), paths[j].clone())).copied().unwrap_or(0).min(6);
                        for k in 1..=ka.min(kb) {
                            plan.push(vec![
                                Inject { func: "read".into(), path: B(paths[i].clone()), n: k, errno: "EIO".into() },
                                Inject { func: "read".into(), path: B(paths[j].clone()), n: k, errno: "EIO".into() },
                            ]);
                        }
                    }
                }
            }
            plan
        }
    };
    let mut expected_cache: BTreeMap<Vec<PathBuf>, Vec<(u64, Vec<Vec<u8>>)>> = BTreeMap::new();
    let mut runs = 0u64;
    let mut nontrivial = 0u64;
    for faults in &plan {
        let (run, flog) = shim_run(&cd, c, &roots, faults);
        runs += 1;
        let desc = format!("{}\ninjected: {:?}", run.cmdline, faults);
        let mk = |clause: &str, detail: String| Verdict::Fail {
            clause: clause.into(),
            detail: format!("{}\n{}\nstderr: {}", desc, detail, run.out.warnings().join(" | ")),
            sig: faults.iter().map(|f| format!("fn-{}", f.func)).chain(faults.iter().map(|f| format!("errno-{}", f.errno))).collect(),
        };
        let case = C15Case { faults: Some(faults.clone()), ..c.clone() };
        if run.out.timed_out {
            ctx.inconclusive.fetch_add(1, Ordering::Relaxed);
            continue;
        }
        let injected_happened = flog.contains("INJECTED");
        if !injected_happened {
            // e.g. the n-th call did not occur in this schedule; nothing to judge
            ctx.class("injection-not-reached");
            continue;
        }
        if run.out.crashed() || !run.out.ok() {
            ctx.report_limited(&case, &mk("run-does-not-finish-successfully", run.out.brief()), 3);
            continue;
        }
        let got = match &run.report {
            Ok(r) => r.path_sets(),
            Err(e) => {
                ctx.report_limited(&case, &mk("unparsable-report", e.clone()), 3);
                continue;
            }
        };
        // (run at once: later steps of this check rebuild the tree, which reuses inode numbers)
        let mut poisoned: Option<String> = None;
        // nothing learnt during a faulted run may leak into later runs: the next run on the same
        // cache, without any fault, must give the clean result of the full tree
        if c.opts.cache {
            let mut r2 = Run::fclones(&cd).arg("group").args(c.opts.args()).arg("-f").arg("json").args(&roots);
            if let Some(d) = c.opts.disk_env() {
                r2 = r2.env("FCLONES_VERIF_DISK_KIND", d);
            }
            let o2 = r2.run();
            runs += 1;
            if !o2.timed_out {
                let got2 = if o2.ok() { parse_json(&o2.stdout).ok().map(|r| r.path_sets()) } else { None };
                if got2.as_ref() != Some(&clean_sets) {
                    poisoned = Some(format!("the next `group --cache` run (no fault) differs from a clean run\nexpected: {}\ngot: {}\n{}", describe_groups(&clean_sets), got2.as_ref().map(|g| describe_groups(g)).unwrap_or_default(), o2.brief()));
                }
            }
        }
        if let Some(detail) = poisoned {
            ctx.report_limited(&case, &mk("faulted-run-poisons-the-cache", detail), 3);
            continue;
        }

        // what each fault may hide: alternatives per fault, the outcome must match one combination
        use std::os::unix::fs::MetadataExt;
        let mut alternatives: Vec<Vec<Vec<PathBuf>>> = vec![];
        let mut warn_if_hidden: Vec<Vec<u8>> = vec![];
        let mut must_be_absent: Vec<Vec<u8>> = vec![];
        let injected_lines: Vec<Vec<&str>> = flog.lines().filter(|l| l.ends_with("INJECTED")).map(|l| l.split(' ').collect()).collect();
        for f in faults {
            let p = bytes_path(&f.path.0);
            let mut alts: Vec<Vec<PathBuf>> = vec![];
            let fired = injected_lines.iter().any(|w| w.len() >= 5 && w[3] == f.func && unesc(w[4]).map(|x| x == f.path.0).unwrap_or(false));
            if !fired {
                alts.push(vec![]);
                alternatives.push(alts);
                continue;
            }
            let with_links = |x: &PathBuf| -> Vec<PathBuf> {
                // hard links: the unreadable *file* may be left out under all its paths
                let mut v = vec![x.clone()];
                if let Ok(m) = std::fs::symlink_metadata(x) {
                    if m.is_file() {
                        for e in &built.entries {
                            if let Ok(m2) = std::fs::symlink_metadata(&e.abs) {
                                if m2.is_file() && (m2.dev(), m2.ino()) == (m.dev(), m.ino()) {
                                    v.push(e.abs.clone());
                                }
                            }
                        }
                    }
                }
                // with -S a reported symlink stands for the file it resolves to: when that file cannot be
                // read, it is left out under all the names that lead to it (the file and every link to it)
                if c.opts.symbolic_links {
                    if let Ok(m) = std::fs::metadata(x) {
                        if m.is_file() {
                            for e in &built.entries {
                                if let Ok(m2) = std::fs::metadata(&e.abs) {
                                    if m2.is_file() && (m2.dev(), m2.ino()) == (m.dev(), m.ino()) {
                                        v.push(e.abs.clone());
                                    }
                                }
                            }
                        }
                    }
                }
                v.sort();
                v.dedup();
                v
            };
            match f.func.as_str() {
                "fiemap" => alts.push(vec![]),
                "readdir" => {
                    // children not returned before the fault
                    let returned: BTreeSet<Vec<u8>> = parse_log(&flog).iter().filter(|l| l.func == "readdir" && l.path == f.path.0 && l.ret == 0).map(|l| l.p2.clone()).collect();
                    let mut lost = vec![];
                    if let Ok(rd) = std::fs::read_dir(&p) {
                        for ch in rd.filter_map(|e| e.ok()) {
                            let name = crate::run::os_bytes(&ch.file_name());
                            // (ignore files are looked up by name, not through the listing)
                            if !returned.contains(&name) && name != b".gitignore" && name != b".fdignore" {
                                lost.push(ch.path());
                            }
                        }
                    }
                    lost.sort();
                    for l in &lost {
                        warn_if_hidden.push(path_bytes(l));
                    }
                    alts.push(lost);
                }
                "read" => {
                    alts.push(vec![p.clone()]);
                    alts.push(with_links(&p));
                    // an ignore file whose read fails after its text was delivered may still be applied
                    // (nothing documents either way): tolerated as well as "left out"
                    if p.file_name().map(|n| n == ".gitignore" || n == ".fdignore").unwrap_or(false) {
                        alts.push(vec![]);
                    }
                    must_be_absent.push(f.path.0.clone());
                    if f.errno != "ENOENT" {
                        warn_if_hidden.push(f.path.0.clone());
                    }
                }
                _ => {
                    // stat / lstat / open / opendir / readlink: one of several calls on the entry;
                    // fclones may tolerate the failure (e.g. the open of the extent query)
                    alts.push(vec![p.clone()]);
                    alts.push(with_links(&p));
                    alts.push(vec![]);
                    if f.errno != "ENOENT" {
                        warn_if_hidden.push(f.path.0.clone());
                    }
                }
            }
            alternatives.push(alts);
        }
        let mut combos: Vec<Vec<PathBuf>> = vec![vec![]];
        for alts in &alternatives {
            let mut next = vec![];
            for c0 in &combos {
                for a in alts {
                    let mut u = c0.clone();
                    u.extend(a.iter().cloned());
                    u.sort();
                    u.dedup();
                    next.push(u);
                }
            }
            next.sort();
            next.dedup();
            combos = next;
        }
        let hidden_grouped = faults.iter().any(|f| grouped.contains(&f.path.0) || grouped.iter().any(|g| g.starts_with(&[f.path.0.clone(), b"/".to_vec()].concat())));
        let late_stage = faults.iter().any(|f| f.func == "open" || f.func == "read");
        if hidden_grouped && late_stage {
            nontrivial += 1;
        }
        let mut ok = false;
        let mut first_expected: Option<(Vec<PathBuf>, Vec<(u64, Vec<Vec<u8>>)>)> = None;
        for removed in &combos {
            let expected = if removed.is_empty() {
                clean_sets.clone()
            } else if let Some(e) = expected_cache.get(removed) {
                e.clone()
            } else {
                match expected_without(&cd, c, &roots, removed) {
                    Ok(e) => {
                        expected_cache.insert(removed.clone(), e.clone());
                        e
                    }
                    Err(_) => continue,
                }
            };
            if first_expected.is_none() {
                first_expected = Some((removed.clone(), expected.clone()));
            }
            if got == expected {
                ok = true;
                break;
            }
            // symlinks reported with -S that point at a hidden entry: the fault hides the entry from the
            // walk, the link still resolves (the reference removed the entry physically, so there the link
            // dangles) - such links are left out of the comparison on both sides
            if c.opts.symbolic_links && !removed.is_empty() {
                // (hop by hop: a chain of links may pass through the hidden entry and end elsewhere)
                let into_removed = |p: &Vec<u8>| {
                    let mut cur = bytes_path(p);
                    if !cur.is_symlink() {
                        return false;
                    }
                    for _ in 0..16 {
                        let Ok(t) = std::fs::read_link(&cur) else { return false };
                        let next = if t.is_absolute() { t } else { cur.parent().map(|d| d.join(&t)).unwrap_or(t) };
                        // normalise `..` textually against the real parent
                        let next = match (next.parent().and_then(|d| std::fs::canonicalize(d).ok()), next.file_name()) {
                            (Some(d), Some(n)) => d.join(n),
                            _ => next,
                        };
                        if removed.iter().any(|r| next.starts_with(r)) {
                            return true;
                        }
                        if !next.is_symlink() {
                            return false;
                        }
                        cur = next;
                    }
                    false
                };
                let strip = |gs: &Vec<(u64, Vec<Vec<u8>>)>| -> Vec<(u64, Vec<Vec<u8>>)> {
                    let mut v: Vec<(u64, Vec<Vec<u8>>)> = gs.iter().map(|(l, ps)| (*l, ps.iter().filter(|p| !into_removed(p)).cloned().collect::<Vec<_>>())).filter(|(_, ps)| !ps.is_empty()).collect();
                    v.sort();
                    v
                };
                if strip(&got) == strip(&expected) {
                    ok = true;
                    break;
                }
            }
        }
        if let Some(p) = must_be_absent.iter().find(|p| got.iter().any(|g| g.1.contains(p))) {
            ctx.report_limited(&case, &mk("unreadable-file-reported-in-group", format!("{:?} could not be read completely but is listed in a group\ngot: {}", B(p.clone()), describe_groups(&got))), 3);
            continue;
        }
        if !ok {
            let (removed, expected) = first_expected.unwrap_or_default();
            ctx.report_limited(
                &case,
                &mk("other-files-grouped-differently", format!("expected e.g. (clean run without {:?}): {}\ngot: {}\nclean run on the full tree: {}\n({} admissible combinations tried)", removed, describe_groups(&expected), describe_groups(&got), describe_groups(&clean_sets), combos.len())),
                3,
            );
            continue;
        }
        // a warning is required when an entry that was grouped in the clean run (or lies below a
        // faulted directory) disappeared from the report because of a non-ENOENT error
        let got_paths: BTreeSet<&Vec<u8>> = got.iter().flat_map(|g| g.1.iter()).collect();
        let hidden: Vec<B> = warn_if_hidden
            .iter()
            .filter(|w| grouped.iter().any(|g| (g == *w || g.starts_with(&[(*w).clone(), b"/".to_vec()].concat())) && !got_paths.contains(g)))
            .map(|w| B(w.clone()))
            .collect();
        if !hidden.is_empty() && !run.out.stderr_s().contains("warn") {
            ctx.report_limited(&case, &mk("entry-left-out-without-warning", format!("left out: {:?}", hidden)), 3);
            continue;
        }
    }
    // faults on the input paths themselves at walk time (the first stat is the up-front argument
    // check, which is allowed to reject the command): the other input paths must be unaffected
    if c.faults.is_none() && c.roots >= 2 {
        for (ri, rp) in root_paths.iter().enumerate() {
            let rb = path_bytes(rp);
            let cnt = lines.iter().filter(|l| l.func == "stat" && l.path == rb).count() as u32;
            let others: Vec<std::ffi::OsString> = roots.iter().enumerate().filter(|(i, _)| *i != ri).map(|(_, r)| r.clone()).collect();
            let _ = ri;
            let mut expected: Option<Vec<(u64, Vec<Vec<u8>>)>> = None;
            // one up-front check per occurrence of the root among the arguments
            let mult = roots.iter().filter(|r| tree.join(r) == *rp).count() as u32;
            for k in (mult + 1)..=cnt.min(mult + 3) {
                for e in ["ENOENT", "EACCES", "EIO"] {
                    let inj = vec![Inject { func: "stat".into(), path: B(rb.clone()), n: k, errno: e.into() }];
                    let (run, flog) = shim_run(&cd, c, &roots, &inj);
                    runs += 1;
                    if !flog.contains("INJECTED") || run.out.timed_out {
                        continue;
                    }
                    if expected.is_none() {
                        // which argument is this root? roots are r0, r0x, ... in order of root_paths' names
                        let (r2, _) = shim_run(&cd, c, &others_for(&roots, rp, &tree), &[]);
                        expected = r2.report.ok().map(|r| r.path_sets());
                    }
                    let case = C15Case { faults: Some(inj.clone()), ..c.clone() };
                    let got = run.report.as_ref().ok().map(|r| r.path_sets());
                    // tolerated (full result) or that input path alone left out
                    if !run.out.ok() || (got != expected && got.as_ref() != Some(&clean_sets)) {
                        let v = Verdict::Fail {
                            clause: "input-path-failure-affects-other-inputs".into(),
                            detail: format!("{}\ninjected: {:?}\nexpected (without that input path): {}\ngot: {}\n{}", run.cmdline, inj, expected.as_ref().map(|e| describe_groups(e)).unwrap_or_default(), got.as_ref().map(|g| describe_groups(g)).unwrap_or_default(), run.out.brief()),
                            sig: vec![format!("errno-{}", e)],
                        };
                        ctx.report_limited(&case, &v, 3);
                    }
                }
            }
            let _ = others;
        }
    }
    ctx.evaluations.fetch_add(runs, Ordering::Relaxed);
    ctx.bulk_nontrivial.fetch_add(nontrivial, Ordering::Relaxed);
    ctx.class_n("faulted-runs", runs);
    let _ = Path::new("/");
    Verdict::Pass { nontrivial: nontrivial > 0, classes: vec![format!("entries-{}", entries.len().min(20))] }
}

/// Trees of the C09 generator (ignore files on several levels, hidden names, symlinks, nesting 0-4) with
/// default options: faults on ignore files, links and directories during the walk.
fn walk_case_strategy() -> BoxedStrategy<C15Case> {
    (1usize..=2)
        .prop_flat_map(|roots| {
            (crate::props::c09::tree_s(roots, true), proptest::collection::vec(0u16..u16::MAX, 4), prop::bool::weighted(0.3), prop::bool::weighted(0.3)).prop_map(move |(mut tree, pair_seeds, sl, hidden)| {
                // two levels of ignore files by construction: rules in the first root that match names used
                // deeper in the tree, and an ignore file in each of its sub-directories that has entries
                let is_ignore = |e: &Entry| e.path.last().map(|n| n.0 == b".gitignore" || n.0 == b".fdignore").unwrap_or(false);
                let subdirs: std::collections::BTreeSet<Vec<u8>> =
                    tree.entries.iter().filter(|e| e.path.len() >= 3 && e.path[0].0 == b"r0" && !is_ignore(e)).map(|e| e.path[1].0.clone()).collect();
                tree.entries.retain(|e| !(is_ignore(e) && e.path[0].0 == b"r0" && e.path.len() <= 3));
                let mut extra = vec![Entry { path: vec![B::s("r0"), B::s(".gitignore")], kind: Kind::Literal(B(b"a\nb\n*.txt\n".to_vec())), mtime: 0 }];
                for (i, d) in subdirs.iter().take(3).enumerate() {
                    extra.push(Entry { path: vec![B::s("r0"), B(d.clone()), B::s(if i % 2 == 0 { ".fdignore" } else { ".gitignore" })], kind: Kind::Literal(B(b"c\nv-1\n".to_vec())), mtime: 0 });
                }
                // after the root directories, before everything else
                let at = tree.entries.iter().position(|e| e.path.len() > 1).unwrap_or(tree.entries.len());
                for (k, e) in extra.into_iter().enumerate() {
                    tree.entries.insert(at + k, e);
                }
                let mut opts = GOpts::default();
                opts.symbolic_links = sl;
                opts.min0 = hidden;
                // every selected file is listed, so that a change of the selection is visible
                opts.rf = RfOpt::Over(0);
                { let du = pair_seeds[0] % 3 == 0; C15Case { tree, roots, opts, ext4: false, faults: None, pair_seeds, repeat_root: false, dtype_unknown: du } }
            })
        })
        .boxed()
}

pub fn check(tier: Tier) -> i32 {
    let ctx = Ctx::new("C15", tier);
    if !std::path::Path::new(SHIM).exists() {
        println!("INCONCLUSIVE: shim not built");
        return 2;
    }
    replay_corpus::<C15Case, _>(&ctx, |c, n| run_case(&ctx, c, n));
    drive(&ctx, "main", tier.pick(64, 900), case_strategy, |c, n| run_case(&ctx, c, n));
    drive(&ctx, "walk", tier.pick(12, 300), walk_case_strategy, |c, n| run_case(&ctx, c, n));
    cleanup_process_scratch();
    ctx.finish(
        "fault_enumeration",
        "proptest-generated scenario trees (4-9 files up to 140 KB, nested directories, hard links, near-duplicates; tmpfs and ext4; in a quarter of the scenarios the first root is given twice; in 30 % directory listings carry no entry types (DT_UNKNOWN through the interposer), so that every entry is lstat-ed and that call is faulted too) x group options (cache, transform - fed through a pipe or reading the original file itself as $IN under --no-copy -, pinned device kind, hash fn, stage knobs). The read-side libc calls (stat, lstat, open, n-th read, opendir, n-th readdir, readlink, FIEMAP ioctl) of a clean run are recorded per tree entry with the LD_PRELOAD interposer; then for EVERY entry strictly below the roots, EVERY recorded call occurrence (capped at 6-8 per function and path) and every applicable errno (EACCES, EIO, ENOENT) one run is made with that single call failing, plus sampled pairs on two different entries and, for every two files of equal length, the same n-th read failing in both; a quarter of the scenarios run with --skip-content-hash (pinned SSD, suffix stage above 64 KiB). Metamorphic oracle: the report must equal a clean run on the tree with the affected entry physically removed (the file; the sub-tree for directory faults; the children not yet returned for a readdir fault; nothing for FIEMAP) - or, for faults on metadata calls that fclones may tolerate, the clean report of the full tree; exit status 0; a warning unless the errno is ENOENT; a file whose open/read failed is in no group. After a faulted run with --cache the next run on the same cache, without fault, must equal the clean run. A second generator takes the trees of the C09 generator (ignore files on several levels, hidden names, file/directory symlinks, nesting 0-4) with --rf-over 0 (every selected file is listed) so that faults also hit ignore files, links and nested directories during the walk. evaluations = faulted runs; non-trivial = the faulted entry is (or contains) a member of a group of the clean report and the fault hits open/read.",
        &["faults are injected at libc level by path and occurrence number, independent of the schedule", "the harness runs as root, so permission bits cannot make files unreadable"],
    )
}

pub fn replay(file: &std::path::Path) -> i32 {
    let ctx = Ctx::new("C15", Tier::Quick);
    let code = replay_one::<C15Case, _>("C15", file, |c, n| run_case(&ctx, c, n));
    if !ctx.violations.lock().unwrap().is_empty() {
        1
    } else {
        code
    }
}
