//! C01 (groups contain only identical files) and C03 (every duplicate reported exactly once):
//! one generated case type, two oracles.

use crate::common::*;
use crate::grp::*;
use crate::model::*;
use crate::run::*;
use crate::tree::*;
use crate::util::*;
use proptest::prelude::*;
use serde::{Deserialize, Serialize};
use std::collections::{BTreeMap, BTreeSet};
use std::path::PathBuf;

#[derive(Clone, Debug, Serialize, Deserialize)]
pub struct GCase {
    pub tree: TreeSpec,
    pub roots: usize,
    /// extra root arguments (overlapping / repeated roots), as paths relative to the tree root
    pub extra_roots: Vec<String>,
    pub opts: GOpts,
    pub ext4: bool,
    /// report format used for the observation: json or default
    pub text: bool,
    /// feed the input paths through --stdin (one per line) instead of as arguments
    #[serde(default)]
    pub stdin: bool,
    /// two freshly mounted tmpfs file systems below the first root hold pairs of files with equal inode
    /// numbers (on different devices), equal lengths and different bytes
    #[serde(default)]
    pub twin_fs: bool,
    /// run as if by a user who does not own the files: every open with O_NOATIME fails with EPERM
    /// (interposer), the files themselves stay readable
    #[serde(default)]
    pub noatime_eperm: bool,
    /// every read() of a tree file returns at most about 3-5 KB (legal short reads before EOF)
    #[serde(default)]
    pub short_reads: bool,
    /// the second root lives on another file system (ext4 below /var/tmp while the rest of the tree is
    /// on tmpfs): devices of different kinds in one run; never together with a pinned disk kind
    #[serde(default)]
    pub split_fs: bool,
}

#[derive(Clone, Copy, PartialEq, Eq, Debug)]
pub enum Which {
    C01,
    C03,
}

pub fn case_strategy(which: Which) -> BoxedStrategy<GCase> {
    let roots = prop_oneof![3 => Just(1usize), 2 => Just(2usize), 1 => Just(3usize)];
    roots
        .prop_flat_map(move |roots| {
            let mut p = Profile::plain();
            p.roots = roots;
            match which {
                Which::C01 => {
                    p.files = (3, 11);
                    p.near_dup_pairs = 2;
                    p.hardlinks = 1;
                    p.symlinks = 1;
                }
                Which::C03 => {
                    p.files = (5, 18);
                    p.near_dup_pairs = 1;
                    p.hardlinks = 2;
                    p.symlinks = 0;
                }
            }
            let op = OptProfile {
                transform_w: if which == Which::C01 { 0.4 } else { 0.25 },
                cache_w: 0.3,
                links: which == Which::C01,
                isolate: false,
                rf: true,
                max_roots: roots,
            };
            let extra = proptest::collection::vec(
                prop_oneof![Just("r0".to_string()), Just("r0/a".to_string()), Just("r0/b".to_string()), Just("r0x".to_string())],
                0..3,
            );
            (
                tree_strategy(&p),
                gopts_strategy(op),
                if which == Which::C03 { prop::option::weighted(0.3, extra).boxed() } else { Just(None).boxed() },
                prop::bool::weighted(0.15),
                prop::bool::weighted(0.3),
                prop::bool::weighted(0.2),
                prop::bool::weighted(0.1),
                (prop::bool::weighted(0.1), prop::bool::weighted(0.15), prop::bool::weighted(0.12)),
            )
                .prop_map(move |(tree, mut opts, extra, ext4, text, stdin, twin_fs, (noatime_eperm, split_fs, short_reads))| {
                    let split_fs = split_fs && roots >= 2 && !ext4;
                    if split_fs {
                        opts.disk = 0; // the detected kinds must differ between the two file systems
                    }
                    if which == Which::C03 {
                        // -H changes counting only (C06's business); keep the simple rule here
                        opts.match_links = false;
                    }
                    if opts.match_links && opts.symbolic_links {
                        // documented-dangerous combination, still legal for group: keep
                    }
                    GCase { tree, roots, extra_roots: extra.unwrap_or_default(), opts, ext4, text, stdin, twin_fs, noatime_eperm, split_fs, short_reads }
                })
        })
        .boxed()
}

fn fail(clause: &str, case_cmd: &str, detail: String, sig: Vec<String>) -> Verdict {
    Verdict::Fail { clause: clause.to_string(), detail: format!("{}\n{}", case_cmd, detail), sig }
}

pub fn sig_of(c: &GCase) -> Vec<String> {
    let mut s = vec![];
    if let Some(t) = &c.opts.transform {
        s.push("transform".to_string());
        if !t.shrinks_or_keeps() {
            s.push("transform-expands".to_string());
        }
        s.push(format!("io-{:?}", t.io).to_lowercase());
    }
    if c.opts.cache {
        s.push("cache".into());
    }
    if c.opts.match_links {
        s.push("match-links".into());
    }
    if c.opts.symbolic_links {
        s.push("symbolic-links".into());
    }
    if c.opts.follow_links {
        s.push("follow-links".into());
    }
    if c.opts.max_suffix.is_some() {
        s.push("max-suffix".into());
    }
    if c.opts.max_prefix.is_some() {
        s.push("max-prefix".into());
    }
    s.push(format!("disk-{}", c.opts.disk));
    s.push(format!("rf-{:?}", c.opts.rf).to_lowercase());
    s
}

pub fn run_case(which: Which, c: &GCase, n: u64) -> Verdict {
    let cd = CaseDir::new(if which == Which::C01 { "c01" } else { "c03" }, n, if c.ext4 { Fs::Ext4 } else { Fs::Tmpfs });
    let built = c.tree.build(&cd.tree());
    let _ = built;
    let mut twin_pairs = 0;
    let _twins = if c.twin_fs {
        use std::os::unix::fs::MetadataExt;
        let r0 = cd.tree().join(ROOT_NAMES[0]);
        let g = mount_twins(&r0.join("twA"), &r0.join("twB"));
        if g.0.len() == 2 {
            for (i, size) in [4096usize, 16384, 70000, 5].iter().enumerate() {
                let a = g.0[0].join(format!("t{}", i));
                let b = g.0[1].join(format!("t{}", i));
                let bytes = class_bytes(900 + i as u32, *size);
                let mut other = bytes.clone();
                other[*size / 2] = other[*size / 2].wrapping_add(1);
                let _ = std::fs::write(&a, &bytes);
                let _ = std::fs::write(&b, &other);
                set_times(&a, BASE_TIME + 5, 0, BASE_TIME);
                set_times(&b, BASE_TIME + 5, 0, BASE_TIME);
                if let (Ok(ma), Ok(mb)) = (std::fs::metadata(&a), std::fs::metadata(&b)) {
                    if ma.ino() == mb.ino() && ma.dev() != mb.dev() {
                        twin_pairs += 1;
                    }
                }
            }
        }
        Some(g)
    } else {
        None
    };
    let mut roots = root_args(c.roots);
    for e in &c.extra_roots {
        if cd.tree().join(e).exists() {
            roots.push(e.into());
        }
    }
    let fmt = if c.text { "default" } else { "json" };
    // second root moved to the other file system (hard links into it become separate files: the
    // reference reads the tree as it is on disk)
    let mut other_fs_dir: Option<PathBuf> = None;
    if c.split_fs && roots.len() >= 2 && c.roots >= 2 {
        let src = cd.tree().join(&roots[1]);
        // every other case: onto the loop device backed by tmpfs (classified as SSD); else the root disk (HDD)
        let dst_base = match (n % 2 == 0, ssd_mount()) {
            (true, Some(m)) => m.join(format!("split{}", n)),
            _ => PathBuf::from(format!("/var/tmp/fcvw/p{}/split{}", std::process::id(), n)),
        };
        let _ = std::fs::create_dir_all(&dst_base);
        let dst = dst_base.join("r_other");
        let ok = std::process::Command::new("cp").arg("-a").arg(&src).arg(&dst).status().map(|s| s.success()).unwrap_or(false);
        if ok && std::fs::remove_dir_all(&src).is_ok() {
            roots[1] = dst.clone().into_os_string();
            roots.retain(|r| r == &dst.clone().into_os_string() || cd.tree().join(r).exists());
            other_fs_dir = Some(dst_base);
        } else {
            let _ = std::fs::remove_dir_all(&dst_base);
        }
    }
    struct RmOnDrop(Option<PathBuf>);
    impl Drop for RmOnDrop {
        fn drop(&mut self) {
            if let Some(p) = &self.0 {
                let _ = std::fs::remove_dir_all(p);
            }
        }
    }
    let _rm_other = RmOnDrop(other_fs_dir.clone());
    let mut envs: Vec<(String, String)> = vec![];
    if (c.noatime_eperm || c.short_reads) && std::path::Path::new(SHIM).exists() {
        envs.push(("LD_PRELOAD".into(), SHIM.into()));
        envs.push(("FCV_ROOT".into(), format!("{}:/var/tmp/fcvw", cd.tree().display())));
        if c.noatime_eperm {
            envs.push(("FCV_NOATIME_EPERM".into(), "1".into()));
        }
        if c.short_reads {
            envs.push(("FCV_SHORT_READ".into(), "3000".into()));
        }
    }
    let group = |cd: &CaseDir| run_group_env(cd, &c.opts, &roots, fmt, &[], c.stdin, &envs);
    let mut run = group(&cd);
    let mut runs = 1;
    if c.opts.cache && run.out.ok() {
        // second run is served from the cache; both must satisfy the property
        let first = run.report.clone();
        let second = group(&cd);
        runs = 2;
        if let (Ok(a), Ok(b)) = (&first, &second.report) {
            if a.path_sets() != b.path_sets() {
                return fail(
                    "cache-changes-result",
                    &second.cmdline,
                    format!("cold: {}\nwarm: {}", describe_groups(&a.path_sets()), describe_groups(&b.path_sets())),
                    sig_of(c),
                );
            }
        }
        run = second;
    }
    let _ = runs;
    let sig = sig_of(c);
    if run.out.timed_out {
        return Verdict::Inconclusive(format!("timeout: {} {}", run.cmdline, run.out.brief()));
    }
    if !run.out.ok() {
        if let Some(r) = clean_rejection(&run.out) {
            if run.out.crashed() {
                return fail("crash", &run.cmdline, run.out.brief(), sig);
            }
            return Verdict::Discard(format!("rejected:{}", r));
        }
        return fail("crash-or-error", &run.cmdline, run.out.brief(), sig);
    }
    let report = match &run.report {
        Ok(r) => r,
        Err(e) => {
            return fail(
                "unparsable-report",
                &run.cmdline,
                format!("{}\nstdout ({} bytes) starts: {:?}\n{}", e, run.out.stdout.len(), String::from_utf8_lossy(&run.out.stdout[..run.out.stdout.len().min(300)]), run.out.brief()),
                sig,
            )
        }
    };

    // ---- C01: soundness of every group -------------------------------------------------------
    let content = c.opts.content_fn();
    let mut any_multi_inode_group = false;
    let mut seen_paths: BTreeSet<Vec<u8>> = BTreeSet::new();
    for g in &report.groups {
        let mut first: Option<(Vec<u8>, std::sync::Arc<Vec<u8>>)> = None;
        let mut ids = BTreeSet::new();
        for f in &g.files {
            let p = bytes_path(f);
            let (bytes, id) = match (std::fs::read(&p), std::fs::metadata(&p)) {
                (Ok(b), Ok(m)) => {
                    use std::os::unix::fs::MetadataExt;
                    (b, (m.dev(), m.ino()))
                }
                _ => {
                    return fail("group-lists-nonexistent-path", &run.cmdline, format!("path {:?} cannot be read", B(f.clone())), sig)
                }
            };
            ids.insert(id);
            let sf = SelFile { path: f.clone(), id, bytes: std::sync::Arc::new(bytes) };
            let data = content(&sf);
            if which == Which::C01 {
                if data.len() as u64 != g.len {
                    let mut s = sig.clone();
                    s.push("len-mismatch".into());
                    return fail(
                        "group-length-wrong",
                        &run.cmdline,
                        format!("group prints length {} but {:?} has (transformed) length {}", g.len, B(f.clone()), data.len()),
                        s,
                    );
                }
                match &first {
                    None => first = Some((f.clone(), data)),
                    Some((f0, d0)) => {
                        if **d0 != *data {
                            let off = d0.iter().zip(data.iter()).position(|(a, b)| a != b).unwrap_or(d0.len().min(data.len()));
                            return fail(
                                "group-members-differ",
                                &run.cmdline,
                                format!(
                                    "{:?} and {:?} are in one group (len {}) but differ at offset {} (lengths {} / {})",
                                    B(f0.clone()),
                                    B(f.clone()),
                                    g.len,
                                    off,
                                    d0.len(),
                                    data.len()
                                ),
                                sig,
                            );
                        }
                    }
                }
            }
            if !seen_paths.insert(f.clone()) && which == Which::C03 {
                return fail("path-listed-twice", &run.cmdline, format!("{:?}", B(f.clone())), sig);
            }
        }
        if ids.len() >= 2 {
            any_multi_inode_group = true;
        }
    }

    // model of the selection and the expected partition (used by C03 and for non-triviality)
    let tree = cd.tree();
    let root_paths: Vec<PathBuf> = roots.iter().map(|r| tree.join(r)).collect();
    let selected = reference_walk(&root_paths, &c.opts.walk_opts(), &|_, _, _| false, &|_| true);
    let counting = Counting { rf: c.opts.rf_model(), match_links: c.opts.match_links, isolate_roots: None };
    let (expected, not_reported) = expected_groups(&selected, &*content, &counting);

    match which {
        Which::C01 => {
            // non-trivial: an equal-length pair with different bytes exists and a real group was reported
            let mut by_len: BTreeMap<usize, BTreeSet<std::sync::Arc<Vec<u8>>>> = BTreeMap::new();
            for f in &selected {
                by_len.entry(f.bytes.len()).or_default().insert(f.bytes.clone());
            }
            let near = by_len.values().any(|s| s.len() >= 2);
            let mut classes = vec![format!("hash-{}", HASH_FNS[c.opts.hash_fn as usize % 7]), format!("disk-{}", c.opts.disk)];
            if let Some(t) = &c.opts.transform {
                classes.push(format!("transform-{:?}-{:?}", std::mem::discriminant(&t.op), t.io).replace("Discriminant", ""));
                classes.push(if t.shrinks_or_keeps() { "transform-keeps-or-shrinks".into() } else { "transform-expands".into() });
            }
            if c.opts.cache {
                classes.push("cache".into());
            }
            if c.ext4 {
                classes.push("ext4".into());
            }
            if twin_pairs > 0 {
                classes.push("twin-file-systems-equal-inode-numbers".into());
            }
            if other_fs_dir.is_some() {
                classes.push("roots-on-two-file-systems-of-different-kind".into());
            }
            if c.noatime_eperm && !envs.is_empty() {
                classes.push("o-noatime-refused".into());
            }
            if c.short_reads && !envs.is_empty() {
                classes.push("short-reads".into());
            }
            Verdict::Pass { nontrivial: near && any_multi_inode_group, classes }
        }
        Which::C03 => {
            let got = report.path_sets();
            let exp: Vec<(u64, Vec<Vec<u8>>)> = expected.iter().map(|g| (g.len, g.paths.clone())).collect();
            if got != exp {
                // name the clause
                let got_paths: BTreeSet<&Vec<u8>> = got.iter().flat_map(|g| g.1.iter()).collect();
                let exp_paths: BTreeSet<&Vec<u8>> = exp.iter().flat_map(|g| g.1.iter()).collect();
                let sel_paths: BTreeSet<&Vec<u8>> = selected.iter().map(|f| &f.path).collect();
                let missing: Vec<_> = exp_paths.difference(&got_paths).map(|p| B((*p).clone())).collect();
                let extra: Vec<_> = got_paths.difference(&exp_paths).map(|p| B((*p).clone())).collect();
                let unselected: Vec<_> = got_paths.difference(&sel_paths).map(|p| B((*p).clone())).collect();
                let clause = if !unselected.is_empty() {
                    "lists-unselected-path"
                } else if !missing.is_empty() {
                    "duplicate-not-reported"
                } else if !extra.is_empty() {
                    "class-reported-against-filter"
                } else {
                    "class-split-or-merged"
                };
                let mut s = sig.clone();
                if exp.len() < got.len() {
                    s.push("more-groups-than-expected".into());
                }
                return fail(
                    clause,
                    &run.cmdline,
                    format!(
                        "expected: {}\ngot:      {}\nmissing: {:?}\nextra: {:?}\nstderr: {}",
                        describe_groups(&exp),
                        describe_groups(&got),
                        missing,
                        extra,
                        run.out.warnings().join(" | ")
                    ),
                    s,
                );
            }
            let plen = c.opts.prefix_len() as usize;
            let multi_dir_big = expected.iter().any(|g| {
                g.len as usize >= plen
                    && g.paths.iter().map(|p| bytes_path(p).parent().map(|x| x.to_path_buf())).collect::<BTreeSet<_>>().len() >= 2
            });
            let nontrivial = expected.len() >= 2 && multi_dir_big && !not_reported.is_empty();
            let mut classes = vec![format!("rf-{:?}", c.opts.rf).to_lowercase(), format!("disk-{}", c.opts.disk)];
            if c.opts.transform.is_some() {
                classes.push("transform".into());
            }
            if c.opts.cache {
                classes.push("cache".into());
            }
            if !c.extra_roots.is_empty() {
                classes.push("overlapping-roots".into());
            }
            if c.stdin {
                classes.push(if c.extra_roots.is_empty() { "roots-from-stdin".into() } else { "overlapping-roots-from-stdin".into() });
            }
            if expected.len() >= 2 {
                classes.push("two-or-more-expected-groups".into());
            }
            if twin_pairs > 0 {
                classes.push("twin-file-systems-equal-inode-numbers".into());
            }
            if other_fs_dir.is_some() {
                classes.push("roots-on-two-file-systems-of-different-kind".into());
            }
            if c.noatime_eperm && !envs.is_empty() {
                classes.push("o-noatime-refused".into());
            }
            if c.short_reads && !envs.is_empty() {
                classes.push("short-reads".into());
            }
            Verdict::Pass { nontrivial, classes }
        }
    }
}

pub fn check(which: Which, tier: Tier) -> i32 {
    let id: &'static str = if which == Which::C01 { "C01" } else { "C03" };
    let ctx = Ctx::new(id, tier);
    replay_corpus::<GCase, _>(&ctx, |c, n| run_case(which, c, n));
    let cases = match which {
        Which::C01 => tier.pick(6000, 60000),
        Which::C03 => tier.pick(6000, 60000),
    };
    drive(&ctx, "main", cases, || case_strategy(which), |c, n| run_case(which, c, n));
    cleanup_process_scratch();
    match which {
        Which::C01 => ctx.finish(
            "exploration",
            "proptest-generated trees (content palette + near-duplicate pairs differing in one byte at stage-boundary offsets, sizes from the boundary set 0..200000, hard links, symlinks; in a tenth of the cases two freshly mounted tmpfs file systems below the first root hold pairs of files with equal inode numbers, equal lengths and different bytes) x group configurations (7 hash fns, cache cold+warm, shrinking/keeping/expanding transforms in 5 I/O modes, max-prefix/suffix sizes, pinned ssd/hdd/unknown, thread specs, -H/-S/-L, --rf-over 0..3 / --rf-under / --unique, --min 0); oracle: every listed path is read back by the harness, (transformed) length must equal the printed group length and all members must be byte-identical. Non-trivial = the scanned set contains two equal-length files with different bytes AND the report contains a group with >=2 distinct inodes; distinct by case digest.",
            &["transform helper programs are deterministic pure functions (fcv-tr, cat, tr, head, dd); their outputs are computed natively by the harness", "--skip-content-hash is never generated (explicit exception in the statement)"],
        ),
        Which::C03 => ctx.finish(
            "exploration",
            "proptest-generated trees (2-5 palette contents shared by 5-18 files over 1-3 roots, nested dirs, hard links, twin tmpfs file systems with equal inode numbers in a tenth of the cases, overlapping/repeated roots, given as arguments or - one case in five - through --stdin) ; in 15 % of the multi-root cases the second root is moved to another device - the root disk (rotational, HDD) or a loop device backed by tmpfs (non-rotational, SSD) - while the first stays on tmpfs (which fclones attributes to the root disk): devices of different detected kinds in one run, disk kind not pinned; in 10 % every open with O_NOATIME is refused with EPERM by the interposer (a user who does not own the files) x configurations (rf-over 0..3, rf-under 1..4, unique, transform, cache, hash fn, prefix/suffix sizes, pinned device, thread specs); oracle: reference content partition of the reference selection + documented replica rule, compared as a set of path-sets with lengths (nothing missing, split, merged, duplicated or unselected). Non-trivial = >=2 expected groups AND a reported class with members in >=2 directories whose size >= prefix length in force AND >=1 class that must not be reported.",
            &["plain name profile: no hidden names, no ignore files (selection subtleties are C09's)", "replica counting uses the simple rule (no -H, no --isolate) here; C06 covers the rest"],
        ),
    }
}

pub fn replay(which: Which, file: &std::path::Path) -> i32 {
    let id = if which == Which::C01 { "C01" } else { "C03" };
    replay_one::<GCase, _>(id, file, |c, n| run_case(which, c, n))
}
