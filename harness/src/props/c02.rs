//! C02 Deduplication never destroys the last copy of any content.

use crate::common::*;
use crate::ded::*;
use crate::grp::*;
use crate::run::*;
use crate::snap::*;
use crate::tree::*;
use crate::util::*;
use std::collections::BTreeSet;

pub fn profile() -> ScenarioProfile {
    ScenarioProfile {
        names: Names::Hostile,
        dir_names: Names::Hostile,
        patterns: true,
        priorities: true,
        symlinks: true,
        match_links_ok: true,
        rf: true,
        ops: vec![Op::Remove, Op::Remove, Op::Link, Op::SoftLink, Op::Dedupe, Op::Move, Op::Move],
        files: (4, 14),
        hardlinks: 3,
    }
}

pub fn sig_of(c: &DCase) -> Vec<String> {
    let mut s = vec![format!("op-{}", c.op.name()), if c.text { "report-text".to_string() } else { "report-json".to_string() }];
    if c.gopts.symbolic_links {
        s.push("symbolic-links".into());
    }
    if c.gopts.isolate || c.dopts.isolate {
        s.push("isolate".into());
    }
    if c.gopts.match_links || c.dopts.match_links {
        s.push("match-links".into());
    }
    if c.dopts.rf_over.is_some() {
        s.push("explicit-n".into());
    }
    s
}

pub fn run_case(c: &DCase, n: u64) -> Verdict {
    let o = execute("c02", c, n, false);
    let v = judge(c, &o);
    o.cleanup_target();
    v
}

fn judge(c: &DCase, o: &Outcome) -> Verdict {
    let sig = sig_of(c);
    let ctxt = format!("{}\n{}", o.group_cmd, o.dedupe_cmd);
    let fail = |clause: &str, detail: String, extra: &[&str]| {
        let mut s = sig.clone();
        s.extend(extra.iter().map(|x| x.to_string()));
        Verdict::Fail { clause: clause.into(), detail: format!("{}\n{}\ndedupe: {}", ctxt, detail, o.dedupe.brief()), sig: s }
    };
    if o.group.timed_out || o.dedupe.timed_out {
        return Verdict::Inconclusive("timeout".into());
    }
    if !o.group.ok() {
        if o.group.crashed() {
            return fail("group-crash", o.group.brief(), &[]);
        }
        return Verdict::Discard("group-rejected".into());
    }
    let report = match &o.report {
        Ok(r) => r,
        Err(e) => return fail("harness-cannot-parse-report", e.clone(), &[]),
    };
    if o.dedupe.crashed() || o.dedupe.stderr_s().contains("panicked") {
        return fail("dedupe-crash", String::new(), &[]);
    }
    let eff = effective(c, &o.canon_roots);
    let d = diff(&o.before, &o.after, false);
    let target_b = path_bytes(&o.target_dir);
    let under_target = |p: &Vec<u8>| p.starts_with(&target_b) && (p.len() == target_b.len() || p[target_b.len()] == b'/');

    // (1) every distinct content that existed before is still stored in a regular file
    let inv_before = o.before.content_inventory();
    let inv_after = o.after.content_inventory();
    if let Some(lost) = inv_before.iter().find(|b| !inv_after.contains(*b)) {
        let who: Vec<B> = o.before.files().filter(|(_, n)| n.bytes.as_ref() == Some(lost)).map(|(p, _)| B(p.clone())).collect();
        return fail("content-destroyed", format!("content of {:?} ({} bytes) is not stored in any regular file any more\nchanges: {}", who, lost.len(), d.describe()), &[]);
    }

    // (3) nothing outside the reported groups is modified; nothing new remains
    let listed: BTreeSet<Vec<u8>> = report.groups.iter().flat_map(|g| g.files.iter().cloned()).collect();
    for p in d.removed.iter().chain(d.changed.iter()) {
        if !listed.contains(p) && !under_target(p) {
            // parent directories of moved targets inside the tree may legitimately appear; they are in `added`
            let is_dir = o.before.get(p).map(|n| n.kind == NodeKind::Dir).unwrap_or(false);
            if is_dir {
                continue;
            }
            return fail("file-outside-groups-modified", format!("{:?} is not listed in the report but was removed or changed\nchanges: {}", B(p.clone()), d.describe()), &[]);
        }
    }
    for p in &d.added {
        if !under_target(p) {
            return fail("stray-new-path", format!("{:?} appeared and was left behind\nchanges: {}", B(p.clone()), d.describe()), &[]);
        }
    }
    // pre-existing entries under the move target are untouched (C18 covers this in depth)

    // (2) max(1,n) replicas of every group (all if fewer) are completely untouched
    let mut any_changed_in_group = false;
    for g in &report.groups {
        let sgs = ref_sub_groups(&g.files, &o.before, &eff);
        let untouched_sgs = sgs.iter().filter(|sg| sg.iter().all(|p| untouched(&o.before, &o.after, p))).count();
        if untouched_sgs < sgs.len() {
            any_changed_in_group = true;
        }
        let need = eff.n.min(sgs.len());
        if untouched_sgs < need {
            return fail(
                "too-few-replicas-untouched",
                format!(
                    "group of {} B: {} sub-groups {:?}, n={}, only {} untouched\nchanges: {}",
                    g.len,
                    sgs.len(),
                    sgs.iter().map(|sg| sg.iter().map(|p| B(p.clone())).collect::<Vec<_>>()).collect::<Vec<_>>(),
                    eff.n,
                    untouched_sgs,
                    d.describe()
                ),
                &[],
            );
        }
    }

    // (4) link / soft link / dedupe: every original path still reads the same bytes
    if matches!(c.op, Op::Link | Op::SoftLink | Op::Dedupe) {
        for (p, n) in o.before.nodes.iter() {
            if under_target(p) {
                continue;
            }
            let was = o.before.read_through(p);
            if was.is_none() {
                continue;
            }
            let _ = n;
            let now = o.after.read_through(p);
            if now != was {
                return fail(
                    "original-path-unreadable",
                    format!("{:?} read {} bytes before; now {:?}\nchanges: {}", B(p.clone()), was.map(|b| b.len()).unwrap_or(0), now.map(|b| b.len()), d.describe()),
                    &[],
                );
            }
        }
    }
    // (5) move: bytes are readable under the target directory at DIR/<absolute source path>
    if c.op == Op::Move {
        for p in &d.removed {
            if under_target(p) {
                continue;
            }
            let Some(node) = o.before.get(p) else { continue };
            if node.kind != NodeKind::File {
                continue;
            }
            let mut dest = target_b.clone();
            dest.extend_from_slice(p);
            let ok = o.after.get(&dest).map(|n| n.kind == NodeKind::File && n.bytes == node.bytes).unwrap_or(false);
            if !ok {
                return fail("moved-bytes-not-under-target", format!("{:?} disappeared but {:?} does not hold its bytes\nchanges: {}", B(p.clone()), B(dest), d.describe()), &[]);
            }
        }
    }

    // non-trivial: something changed and a reported group has a hostile name or link structure
    let hostile = report.groups.iter().any(|g| {
        g.files.iter().any(|f| f.iter().any(|b| !(b.is_ascii_alphanumeric() || b"/._-".contains(b))))
            || ref_sub_groups(&g.files, &o.before, &eff).iter().any(|sg| sg.len() > 1)
    });
    let changed = !d.is_empty();
    let mut classes = sig.clone();
    if !o.dedupe.ok() {
        classes.push("dedupe-refused".into());
    }
    if changed {
        classes.push("changed-something".into());
    }
    let _ = any_changed_in_group;
    Verdict::Pass { nontrivial: changed && hostile, classes }
}

pub fn check(tier: Tier) -> i32 {
    let ctx = Ctx::new("C02", tier);
    replay_corpus::<DCase, _>(&ctx, run_case);
    drive(&ctx, "main", tier.pick(8000, 60000), || dcase_strategy(profile()), run_case);
    cleanup_process_scratch();
    ctx.finish(
        "exploration",
        "proptest-generated scenarios: trees with hostile file and directory names (leading/trailing white space of several kinds, newlines, quotes, backslashes, non-UTF-8, shell and glob metacharacters), hard-link sets, symlinks reported with -S, 1-3 roots, decoy singleton files named like trimmed/escaped/unescaped variants of group members; group options -S/-I/-H/--rf-over, report as text or JSON; one of remove/link/link --soft/dedupe/move with --rf-over, --priority lists, name/path/keep-name/keep-path globs, --isolate, -H, --no-lock. Oracle over inventories (lstat + bytes) taken before and after: no content lost, max(1,n) sub-groups of each reported group untouched, nothing outside the report changed, no stray paths, original paths still readable (link ops), moved bytes under the target. Non-trivial = the command changed the tree and a reported group contains a hostile name or a multi-path sub-group.",
        &["-H together with -S (documented dangerous) is not generated", "reflink is unsupported on the sandbox file systems: `dedupe` exercises only its refusal path here", "files keep old mtimes (2020) so the modification-time guard does not interfere"],
    )
}

pub fn replay(file: &std::path::Path) -> i32 {
    replay_one::<DCase, _>("C02", file, run_case)
}
