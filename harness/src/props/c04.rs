//! C04 A stale report never causes removal of changed data.

use crate::common::*;
use crate::ded::*;
use crate::grp::*;
use crate::report::*;
use crate::run::*;
use crate::snap::*;
use crate::tree::*;
use crate::util::*;
use proptest::prelude::*;
use serde::{Deserialize, Serialize};
use std::ffi::CString;
use std::io::{Read, Write};
use std::os::unix::ffi::OsStrExt;
use std::path::{Path, PathBuf};
use std::time::{Duration, Instant};

#[derive(Clone, Debug, Serialize, Deserialize, PartialEq)]
pub enum EditKind {
    RewriteSameLen,
    RewriteOtherLen,
    Append,
    Truncate,
    Delete,
    DeleteRecreate,
    ReplaceByDir,
    ReplaceBySymlink,
    Touch,
}

#[derive(Clone, Debug, Serialize, Deserialize)]
pub struct Edit {
    pub kind: EditKind,
    pub target: u16,
    /// true: while `group` is paused; false: after `group` exited
    pub during_group: bool,
}

#[derive(Clone, Debug, Serialize, Deserialize)]
pub struct C04Case {
    pub d: DCase,
    pub edits: Vec<Edit>,
    /// which open-for-read of `group` is paused (selector over 1..=K+1)
    pub pause_sel: u16,
    pub tz_group: u8,
    pub tz_dedupe: u8,
    /// aim the edits at files that the recording run of `group` reported (members of groups)
    /// instead of at arbitrary files of the tree
    #[serde(default)]
    pub prefer_grouped: bool,
    /// the same report is used twice: first by `link --soft` / `link` / `remove` (0, 1, 2) with default
    /// options, then by the command of the case
    #[serde(default)]
    pub pre_op: Option<u8>,
    /// the report comes from `group --transform cat` (content-preserving; switches the size check of the
    /// dedupe commands off through the header)
    #[serde(default)]
    pub transform_cat: bool,
}

const TZS: [&str; 6] = ["UTC", "JST-9", "PST8", "XXX-5:30", "NST3:30", "AEST-10AEDT,M10.1.0,M4.1.0/3"];

fn profile() -> ScenarioProfile {
    ScenarioProfile {
        names: Names::Plain,
        dir_names: Names::Plain,
        patterns: false,
        priorities: true,
        symlinks: true,
        match_links_ok: true,
        rf: true,
        ops: vec![Op::Remove, Op::Remove, Op::Link, Op::SoftLink, Op::Move, Op::Dedupe],
        files: (5, 12),
        hardlinks: 1,
    }
}

fn case_strategy() -> BoxedStrategy<C04Case> {
    let kind = prop_oneof![
        5 => Just(EditKind::RewriteSameLen),
        2 => Just(EditKind::RewriteOtherLen),
        1 => Just(EditKind::Append),
        1 => Just(EditKind::Truncate),
        1 => Just(EditKind::Delete),
        2 => Just(EditKind::DeleteRecreate),
        1 => Just(EditKind::ReplaceByDir),
        1 => Just(EditKind::ReplaceBySymlink),
        1 => Just(EditKind::Touch),
    ];
    let edit = (kind, 0u16..u16::MAX, prop::bool::weighted(0.6)).prop_map(|(kind, target, during_group)| Edit { kind, target, during_group });
    (dcase_strategy(profile()), proptest::collection::vec(edit, 1..4), 0u16..u16::MAX, 0u8..6, 0u8..6, prop::bool::weighted(0.75), prop::option::weighted(0.2, 0u8..3), prop::bool::weighted(0.15))
        .prop_map(|(mut d, edits, pause_sel, tz_group, tz_dedupe, prefer_grouped, pre_op, transform_cat)| {
            for p in d.dopts.priority.iter_mut() {
                if *p % 12 == 6 || *p % 12 == 7 {
                    *p = 0;
                }
            }
            if d.move_target == 1 {
                d.move_target = 0;
            }
            if d.gopts.symbolic_links {
                // a symlink kept as the replica of its own target under another isolate root is an open
                // finding of C02/C11: excluded here by construction
                d.gopts.isolate = false;
                d.dopts.isolate = false;
            }
            if transform_cat {
                d.gopts.transform = Some(Tr { op: TrOp::Cat, io: TrIo::Pipe });
            }
            C04Case { d, edits, pause_sel, tz_group, tz_dedupe, prefer_grouped, pre_op, transform_cat }
        })
        .boxed()
}

fn mkfifo(p: &Path) -> bool {
    let c = CString::new(p.as_os_str().as_bytes()).unwrap();
    unsafe { libc::mkfifo(c.as_ptr(), 0o600) == 0 }
}

fn touch_now(p: &Path) {
    let c = CString::new(p.as_os_str().as_bytes()).unwrap();
    let ts = [libc::timespec { tv_sec: 0, tv_nsec: libc::UTIME_OMIT }, libc::timespec { tv_sec: 0, tv_nsec: libc::UTIME_NOW }];
    unsafe {
        libc::utimensat(libc::AT_FDCWD, c.as_ptr(), ts.as_ptr(), 0);
    }
}

fn apply_edit(e: &Edit, idx: usize, files: &[PathBuf]) -> Option<String> {
    if files.is_empty() {
        return None;
    }
    let p = &files[pick(e.target, files.len())];
    let Ok(meta) = std::fs::symlink_metadata(p) else { return None };
    if meta.file_type().is_symlink() {
        // an ordinary write through a link that is a group member (reported with -S): same length
        if e.kind != EditKind::RewriteSameLen {
            return None;
        }
        let Ok(tm) = std::fs::metadata(p) else { return None };
        if !tm.is_file() {
            return None;
        }
        let n = tm.len() as usize;
        std::fs::write(p, class_bytes(50_000 + idx as u32 * 131 + e.target as u32, n.max(1))).ok()?;
        return Some(format!("RewriteSameLen through the symlink {}", p.display()));
    }
    if !meta.is_file() {
        return None;
    }
    let len = meta.len() as usize;
    let unique = |n: usize| class_bytes(50_000 + idx as u32 * 131 + e.target as u32, n.max(1));
    match e.kind {
        EditKind::RewriteSameLen => std::fs::write(p, unique(len)).ok()?,
        EditKind::RewriteOtherLen => std::fs::write(p, unique(len + 7)).ok()?,
        EditKind::Append => {
            let mut f = std::fs::OpenOptions::new().append(true).open(p).ok()?;
            f.write_all(b"+tail").ok()?;
        }
        EditKind::Truncate => {
            if len > 1 {
                let f = std::fs::OpenOptions::new().write(true).open(p).ok()?;
                f.set_len((len / 2) as u64).ok()?;
            } else {
                std::fs::write(p, unique(3)).ok()?;
            }
        }
        EditKind::Delete => std::fs::remove_file(p).ok()?,
        EditKind::DeleteRecreate => {
            std::fs::remove_file(p).ok()?;
            std::fs::write(p, unique(len)).ok()?;
        }
        EditKind::ReplaceByDir => {
            std::fs::remove_file(p).ok()?;
            std::fs::create_dir(p).ok()?;
        }
        EditKind::ReplaceBySymlink => {
            let other = files.iter().find(|f| *f != p && f.is_file())?.clone();
            std::fs::remove_file(p).ok()?;
            std::os::unix::fs::symlink(&other, p).ok()?;
        }
        EditKind::Touch => touch_now(p),
    }
    Some(format!("{:?} {}", e.kind, p.display()))
}

/// Runs `group --threads 1` under the interposer, pausing it at its k-th open-for-read of a
/// tree file; `at_pause` runs while fclones is blocked. Returns (output, paused?).
fn run_group_paused(cd: &CaseDir, c: &C04Case, k: usize, at_pause: &mut dyn FnMut()) -> (Out, bool, String) {
    let fifo_out = cd.base.join("pause.out");
    let fifo_in = cd.base.join("pause.in");
    let _ = std::fs::remove_file(&fifo_out);
    let _ = std::fs::remove_file(&fifo_in);
    if !mkfifo(&fifo_out) || !mkfifo(&fifo_in) {
        return (Run::fclones(cd).arg("--version").run(), false, "mkfifo failed".into());
    }
    let fmt = if c.d.text { "default" } else { "json" };
    let mut args: Vec<std::ffi::OsString> = vec!["group".into()];
    args.extend(c.d.gopts.args());
    args.push("--threads".into());
    args.push("1".into());
    if fmt != "default" {
        args.push("-f".into());
        args.push(fmt.into());
    }
    args.extend(root_args(c.d.roots));
    let cmdline = format!("TZ={} fclones {}", TZS[c.tz_group as usize % 6], args.iter().map(|a| a.to_string_lossy().to_string()).collect::<Vec<_>>().join(" "));
    let mut cmd = std::process::Command::new(FCLONES_BIN);
    cmd.args(&args).current_dir(cd.tree()).env_clear();
    for (key, v) in Run::fclones(cd).env {
        cmd.env(key, v);
    }
    cmd.env("TZ", TZS[c.tz_group as usize % 6])
        .env("LD_PRELOAD", SHIM)
        .env("FCV_ROOT", cd.tree())
        .env("FCV_PAUSE", format!("O:{}:{}:{}", k, fifo_out.display(), fifo_in.display()))
        .stdin(std::process::Stdio::null())
        .stdout(std::process::Stdio::piped())
        .stderr(std::process::Stdio::piped());
    let start = Instant::now();
    let mut child = match cmd.spawn() {
        Ok(ch) => ch,
        Err(e) => return (Out { code: None, signal: None, stdout: vec![], stderr: e.to_string().into_bytes(), timed_out: true, deadlocked: false, wall: start.elapsed() }, false, cmdline),
    };
    let mut so = child.stdout.take().unwrap();
    let mut se = child.stderr.take().unwrap();
    let t_out = std::thread::spawn(move || {
        let mut v = vec![];
        let _ = so.read_to_end(&mut v);
        v
    });
    let t_err = std::thread::spawn(move || {
        let mut v = vec![];
        let _ = se.read_to_end(&mut v);
        v
    });
    // wait for the pause notification (or the exit of the child if the k-th open never happens)
    let mut out_r = std::fs::OpenOptions::new().read(true).write(true).custom_flags_nonblock().open(&fifo_out).ok();
    let mut paused = false;
    let mut status = None;
    let mut timed_out = false;
    loop {
        if let Some(f) = out_r.as_mut() {
            let mut b = [0u8; 1];
            if let Ok(1) = f.read(&mut b) {
                paused = true;
                break;
            }
        }
        match child.try_wait() {
            Ok(Some(st)) => {
                status = Some(st);
                break;
            }
            Ok(None) => {}
            Err(_) => break,
        }
        if start.elapsed() > Duration::from_secs(60) {
            timed_out = true;
            let _ = child.kill();
            break;
        }
        std::thread::sleep(Duration::from_millis(1));
    }
    if paused {
        // keep clear of the instants fclones reads the clock: kernel mtimes are tick-granular
        std::thread::sleep(Duration::from_millis(30));
        at_pause();
        std::thread::sleep(Duration::from_millis(30));
        if let Ok(mut w) = std::fs::OpenOptions::new().read(true).write(true).open(&fifo_in) {
            let _ = w.write_all(b"g");
            // keep the fifo open until the child has exited so that its open/read succeeds
            let deadline = Instant::now() + Duration::from_secs(60);
            loop {
                match child.try_wait() {
                    Ok(Some(st)) => {
                        status = Some(st);
                        break;
                    }
                    Ok(None) if Instant::now() > deadline => {
                        timed_out = true;
                        let _ = child.kill();
                        break;
                    }
                    Ok(None) => std::thread::sleep(Duration::from_millis(1)),
                    Err(_) => break,
                }
            }
        }
    }
    if status.is_none() {
        status = child.wait().ok();
    }
    let stdout = t_out.join().unwrap_or_default();
    let stderr = t_err.join().unwrap_or_default();
    use std::os::unix::process::ExitStatusExt;
    (
        Out { code: status.and_then(|s| s.code()), signal: status.and_then(|s| s.signal()), stdout, stderr, timed_out, deadlocked: false, wall: start.elapsed() },
        paused,
        cmdline,
    )
}

trait NonBlock {
    fn custom_flags_nonblock(&mut self) -> &mut Self;
}
impl NonBlock for std::fs::OpenOptions {
    fn custom_flags_nonblock(&mut self) -> &mut Self {
        use std::os::unix::fs::OpenOptionsExt;
        self.custom_flags(libc::O_NONBLOCK)
    }
}

pub fn run_case(c: &C04Case, n: u64) -> Verdict {
    let cd = CaseDir::new("c04", n, Fs::Tmpfs);
    let tree = cd.tree();
    let built = c.d.tree.build(&tree);
    let files = file_list(&built);
    // with -S: a symlink inside the first root whose target lives outside every scanned root and holds a
    // copy of the first regular file of that root; it sorts first in its group (name `0link`)
    if c.d.gopts.symbolic_links {
        let r0 = tree.join(ROOT_NAMES[0]);
        let first = std::fs::read_dir(&r0).ok().and_then(|rd| {
            let mut f: Vec<_> = rd.filter_map(|e| e.ok()).filter(|e| e.file_type().map(|t| t.is_file()).unwrap_or(false)).map(|e| e.path()).collect();
            f.sort();
            f.into_iter().find(|p| std::fs::metadata(p).map(|m| m.len() > 0).unwrap_or(false))
        });
        if let Some(src) = first {
            let ext = cd.base.join("ext");
            let _ = std::fs::create_dir_all(&ext);
            if let Ok(bytes) = std::fs::read(&src) {
                let e0 = ext.join("e0");
                if std::fs::write(&e0, &bytes).is_ok() {
                    set_times(&e0, BASE_TIME + 3, 0, BASE_TIME);
                    let _ = std::os::unix::fs::symlink(&e0, r0.join("0link"));
                }
            }
        }
    }
    let target = target_dir(&cd, &c.d);
    if c.d.move_target >= 2 {
        let _ = std::fs::create_dir_all(&target);
    }
    let v = judge(c, &cd, &files, &target);
    if target.starts_with("/var/tmp/fcvw") && target.file_name().map(|x| x.to_string_lossy().starts_with("mv")).unwrap_or(false) {
        let _ = std::fs::remove_dir_all(&target);
    }
    v
}

fn judge(c: &C04Case, cd: &CaseDir, files: &[PathBuf], target: &PathBuf) -> Verdict {
    let tree = cd.tree();
    // recording run: number of opens for read
    let rec = Run::fclones(cd)
        .arg("group")
        .args(c.d.gopts.args())
        .arg("--threads")
        .arg("1")
        .args(root_args(c.d.roots))
        .env("LD_PRELOAD", SHIM)
        .env("FCV_ROOT", &tree)
        .env("FCV_LOG", cd.base.join("shim.log"))
        .run();
    if rec.timed_out {
        return Verdict::Inconclusive("timeout".into());
    }
    if !rec.ok() {
        return Verdict::Discard("group-rejected".into());
    }
    let log = std::fs::read_to_string(cd.base.join("shim.log")).unwrap_or_default();
    let opens = log.lines().filter(|l| l.split(' ').nth(3) == Some("open") && l.split(' ').nth(2) == Some("R")).count();
    // edit targets: members of the groups the recording run reported, when asked for and available
    let grouped_files: Vec<PathBuf> = if c.prefer_grouped {
        let members: std::collections::BTreeSet<Vec<u8>> = parse_text(&rec.stdout).map(|r| r.groups.iter().flat_map(|g| g.files.iter().cloned()).collect()).unwrap_or_default();
        // all reported members, symlinks (reported with -S) included
        members.iter().map(|m| bytes_path(m)).collect()
    } else {
        vec![]
    };
    let edit_files: &[PathBuf] = if grouped_files.len() >= 2 { &grouped_files } else { files };
    // half of the new-style cases pause in the last third of the opens (files already hashed, report not yet written)
    let k = if c.prefer_grouped && c.pause_sel & 1 == 1 { opens + 1 - pick(c.pause_sel, opens / 3 + 1) } else { pick(c.pause_sel, opens + 1) + 1 };
    let mut applied: Vec<String> = vec![];
    let mut same_len_during = false;
    let mut at_pause = || {
        for (i, e) in c.edits.iter().enumerate() {
            if e.during_group {
                if let Some(s) = apply_edit(e, i, edit_files) {
                    if e.kind == EditKind::RewriteSameLen || e.kind == EditKind::DeleteRecreate {
                        same_len_during = true;
                    }
                    applied.push(format!("[while group paused at open #{} of {}] {}", k, opens, s));
                }
            }
        }
    };
    let (gout, paused, gcmd) = run_group_paused(cd, c, k, &mut at_pause);
    if gout.timed_out {
        return Verdict::Inconclusive(format!("timeout {}", gcmd));
    }
    if gout.crashed() {
        return Verdict::fail("group-crash", format!("{}\n{}", gcmd, gout.brief()));
    }
    if !gout.ok() {
        return Verdict::Discard("group-failed".into());
    }
    std::thread::sleep(Duration::from_millis(30));
    let ext_link = tree.join(ROOT_NAMES[0]).join("0link");
    if c.d.gopts.symbolic_links && c.pause_sel % 3 == 0 && ext_link.is_symlink() {
        // an ordinary write through the link: the file outside the roots gets new bytes of the same
        // length and a new mtime, the link itself is not touched
        if let Ok(m) = std::fs::metadata(&ext_link) {
            if m.is_file() && std::fs::write(&ext_link, class_bytes(77_000 + c.pause_sel as u32, (m.len() as usize).max(1))).is_ok() {
                applied.push(format!("[after group] RewriteSameLen through the symlink {} (target outside the scanned roots)", ext_link.display()));
            }
        }
    }
    for (i, e) in c.edits.iter().enumerate() {
        if !e.during_group || !paused {
            if let Some(s) = apply_edit(e, i, edit_files) {
                applied.push(format!("[after group] {}", s));
            }
        }
    }
    std::thread::sleep(Duration::from_millis(30));
    let report_bytes = gout.stdout.clone();
    let report = if c.d.text { parse_text(&report_bytes) } else { parse_json(&report_bytes) };
    // (the directory outside the roots that holds the target of `0link` is part of the inventory)
    let ext_dir = cd.base.join("ext");
    let _ = std::fs::create_dir_all(&ext_dir);
    let canon_roots: Vec<PathBuf> = root_paths(&tree, c.d.roots).iter().map(|p| std::fs::canonicalize(p).unwrap_or(p.clone())).collect();
    // the report may be used more than once: a first dedupe command with default options
    if let Some(po) = c.pre_op {
        let mut d2 = c.d.clone();
        d2.op = [Op::SoftLink, Op::Link, Op::Remove][po as usize % 3].clone();
        d2.dopts.priority = vec![];
        d2.dopts.rf_over = None;
        let (a0, _) = dedupe_args(&d2, files, &canon_roots, target, false);
        let s0 = Snapshot::take(&[&tree, target, &ext_dir]);
        let r0 = Run::fclones(cd).args(&a0).stdin(report_bytes.clone()).env("TZ", TZS[c.tz_dedupe as usize % 6]);
        let c0 = r0.cmdline();
        let o0 = r0.run();
        let s0b = Snapshot::take(&[&tree, target, &ext_dir]);
        if o0.timed_out {
            return Verdict::Inconclusive("timeout".into());
        }
        let (i0, i1) = (s0.content_inventory(), s0b.content_inventory());
        if let Some(lost) = i0.iter().find(|b| !i1.contains(*b)) {
            return Verdict::Fail {
                clause: "changed-data-destroyed".into(),
                detail: format!("{}\nedits: {}\n{} < report   (first use of the report)\na content of {} bytes that existed just before this command no longer exists\n{}", gcmd, applied.join("; "), c0, lost.len(), o0.brief()),
                sig: vec![format!("op-{}", d2.op.name()), "first-use-of-the-report".into()],
            };
        }
        applied.push(format!("[then] {} < report", c0));
        std::thread::sleep(Duration::from_millis(30));
    }
    let s1 = Snapshot::take(&[&tree, target, &ext_dir]);
    let (args, _) = dedupe_args(&c.d, files, &canon_roots, target, false);
    let run = Run::fclones(cd).args(&args).stdin(report_bytes).env("TZ", TZS[c.tz_dedupe as usize % 6]);
    let dcmd = format!("TZ={} {} < report", TZS[c.tz_dedupe as usize % 6], run.cmdline());
    let dout = run.run();
    let s2 = Snapshot::take(&[&tree, target, &ext_dir]);
    let sig = vec![format!("op-{}", c.d.op.name()), if paused { "edit-during-group".to_string() } else { "edit-after-group".to_string() }];
    let d = diff(&s1, &s2, false);
    let fail = |clause: &str, detail: String| {
        let mut s = sig.clone();
        if same_len_during && paused {
            s.push("same-length-rewrite-during-group".into());
        }
        Verdict::Fail {
            clause: clause.into(),
            detail: format!("{}\nedits: {}\n{}\n{}\nchanges made by the dedupe command: {}\ngroup stderr: {}\ndedupe: {}", gcmd, applied.join("; "), dcmd, detail, d.describe(), gout.warnings().join(" | "), dout.brief()),
            sig: s,
        }
    };
    if dout.timed_out {
        return Verdict::Inconclusive("timeout".into());
    }
    if dout.crashed() {
        return fail("dedupe-crash", String::new());
    }
    // (1) every content present just before the dedupe run is still stored in a regular file
    let inv1 = s1.content_inventory();
    let inv2 = s2.content_inventory();
    if let Some(lost) = inv1.iter().find(|b| !inv2.contains(*b)) {
        let who: Vec<B> = s1.files().filter(|(_, n)| n.bytes.as_ref() == Some(lost)).map(|(p, _)| B(p.clone())).collect();
        return fail("changed-data-destroyed", format!("the content of {:?} ({} bytes, as it was just before the dedupe run) no longer exists in any regular file", who, lost.len()));
    }
    // (2) whatever was removed, replaced or moved still has its current bytes retained in an untouched file
    let target_b = path_bytes(target);
    for p in d.removed.iter().chain(d.changed.iter()) {
        let Some(n1) = s1.get(p) else { continue };
        if n1.kind != NodeKind::File || p.starts_with(&target_b) {
            continue;
        }
        let b = n1.bytes.clone();
        let retained = s2.nodes.iter().any(|(q, n2)| n2.kind == NodeKind::File && n2.bytes == b && (untouched(&s1, &s2, q) || q.starts_with(&target_b)));
        if !retained {
            return fail("processed-file-content-not-retained", format!("{:?} was processed but no untouched file keeps its current content", B(p.clone())));
        }
    }
    let in_report = |p: &PathBuf| report.as_ref().map(|r| r.groups.iter().any(|g| g.files.contains(&path_bytes(p)))).unwrap_or(false);
    let nontrivial = paused
        && c.edits.iter().any(|e| e.during_group && e.kind == EditKind::RewriteSameLen && !edit_files.is_empty() && in_report(&edit_files[pick(e.target, edit_files.len())]));
    let mut classes = sig.clone();
    if c.pre_op.is_some() {
        classes.push("report-used-twice".into());
    }
    if c.transform_cat {
        classes.push("report-from-transform-cat".into());
    }
    classes.push(format!("tz-{}-{}", c.tz_group % 6, c.tz_dedupe % 6));
    for e in &c.edits {
        classes.push(format!("edit-{:?}", e.kind));
    }
    if !d.is_empty() {
        classes.push("dedupe-changed-something".into());
    }
    Verdict::Pass { nontrivial, classes }
}

pub fn check(tier: Tier) -> i32 {
    let ctx = Ctx::new("C04", tier);
    if !std::path::Path::new(SHIM).exists() {
        println!("INCONCLUSIVE: shim not built");
        return 2;
    }
    replay_corpus::<C04Case, _>(&ctx, run_case);
    drive(&ctx, "main", tier.pick(2400, 30000), case_strategy, run_case);
    cleanup_process_scratch();
    ctx.finish(
        "exploration",
        "proptest-generated histories: a scenario tree (5-12 files, several groups, hard links) ; `group --threads 1` paused by the LD_PRELOAD interposer at its k-th open-for-read of a tree file (k drawn from 1..K+1 where K comes from a recording run; covers 'before the first read of a file', 'between its prefix and content reads', 'after all hashing but before the report is written') ; 1-3 edits (rewrite same length - also through a symlink that is itself a reported member (-S), incl. one whose target lies outside every scanned root -, rewrite other length, append, truncate, delete, delete+recreate, replace by directory, replace by symlink, touch) applied by ordinary writes either during the pause or after `group` exited, aimed - in three quarters of the cases - at members of the groups a recording run reported, with the pause point biased towards the last third of the opens ; in a fifth of the cases a first dedupe command (link --soft / link / remove, default options) on the same report ; one of remove/link/link --soft/move/dedupe with priorities, -n, isolate ; 15 % of the reports come from `group --transform cat` (size check off through the header) ; group and dedupe run under independently drawn time zones (UTC, +9, -8, +5:30, -3:30, DST rule). Oracle (inventories just before and after the dedupe run): every content that existed just before the dedupe run is still stored in a regular file, and every processed file's current content is retained in an untouched file (or under the move target). Non-trivial = a same-length rewrite of a reported group member applied while `group` was paused.",
        &["edits are kept >= 30 ms away from the instants fclones reads the clock (kernel mtimes are tick-granular)", "mtime-preserving replacement is outside the guarantee and not generated", "the pause granularity is a libc call, not an instruction"],
    )
}

pub fn replay(file: &std::path::Path) -> i32 {
    replay_one::<C04Case, _>("C04", file, run_case)
}
