//! C20 Files locked by another process are left alone (unless --no-lock).

use crate::common::*;
use crate::ded::*;
use crate::run::*;
use crate::snap::*;
use crate::tree::*;
use crate::util::*;
use proptest::prelude::*;
use serde::{Deserialize, Serialize};
use std::collections::BTreeSet;
use std::os::unix::io::AsRawFd;

#[derive(Clone, Debug, Serialize, Deserialize)]
pub struct C20Case {
    pub d: DCase,
    /// selectors choosing which of the files the command intends to process get locked
    pub locked: Vec<u16>,
    pub lock_all: bool,
    #[serde(default)]
    /// 0: whole file, 1: one byte far beyond EOF, 2: first byte only, 3: from offset 1 to infinity
    pub range: u8,
    /// the foreign process holds a shared (read) lock instead of an exclusive one; it still
    /// conflicts with the exclusive lock a dedupe command must obtain
    #[serde(default)]
    pub read_lock: bool,
    /// the locked files are read-only (mode 0444) and fclones runs without CAP_DAC_OVERRIDE
    /// (through setpriv), i.e. like an ordinary user who may delete but not write them
    #[serde(default)]
    pub readonly: bool,
    /// record locks are refused with EOPNOTSUPP (interposer) below the directory of one intended file,
    /// like on a file system without lock support; files there are never locked by the harness
    #[serde(default)]
    pub nolock_dir: Option<u16>,
    /// fclones' lock request on a file locked by the harness fails with ENOLCK instead of EAGAIN
    #[serde(default)]
    pub conflict_enolck: bool,
    /// the n-th lstat of the first locked file fails with EIO (interposer): the dedupe command cannot
    /// tell whether the path is a symlink just before it asks for the lock
    #[serde(default)]
    pub lstat_fault: Option<u8>,
}

fn profile() -> ScenarioProfile {
    ScenarioProfile {
        names: Names::Hostile,
        dir_names: Names::Plain,
        patterns: false,
        priorities: true,
        symlinks: false,
        match_links_ok: true,
        rf: true,
        ops: vec![Op::Remove, Op::Link, Op::SoftLink, Op::Move, Op::Dedupe],
        files: (5, 14),
        hardlinks: 3,
    }
}

fn case_strategy() -> BoxedStrategy<C20Case> {
    (dcase_strategy(profile()), proptest::collection::vec(0u16..u16::MAX, 1..4), prop::bool::weighted(0.1), 0u8..4, prop::bool::weighted(0.35), prop::bool::weighted(0.2), prop::option::weighted(0.2, 0u16..u16::MAX), prop::option::weighted(0.15, 1u8..4), prop::bool::weighted(0.2))
        .prop_map(|(mut d, locked, lock_all, range, read_lock, readonly, nolock_dir, lstat_fault, conflict_enolck)| {
            // access times change when the harness reads files; keep the intention stable
            for p in d.dopts.priority.iter_mut() {
                if *p % 12 == 6 || *p % 12 == 7 {
                    *p = 0;
                }
            }
            C20Case { d, locked, lock_all, range, read_lock, readonly, nolock_dir, lstat_fault, conflict_enolck }
        })
        .boxed()
}

const F_OFD_SETLK: libc::c_int = 37;

/// Takes an open-file-description write lock on the whole file; the returned File keeps it.
fn ofd_lock(p: &std::path::Path, range: u8, read_lock: bool) -> Option<std::fs::File> {
    let f = std::fs::OpenOptions::new().read(true).write(!read_lock).open(p).ok()?;
    let mut fl: libc::flock = unsafe { std::mem::zeroed() };
    fl.l_type = if read_lock { libc::F_RDLCK } else { libc::F_WRLCK } as i16;
    fl.l_whence = libc::SEEK_SET as i16;
    let (start, len) = match range % 4 {
        1 => (0x4000_0000, 1),
        2 => (0, 1),
        3 => (1, 0),
        _ => (0, 0),
    };
    fl.l_start = start;
    fl.l_len = len;
    fl.l_pid = 0;
    let r = unsafe { libc::fcntl(f.as_raw_fd(), F_OFD_SETLK, &fl) };
    if r == 0 {
        Some(f)
    } else {
        None
    }
}

/// Files the command intends to process, learnt from a dry run of the same command:
/// the paths the script moves, removes or replaces (decoded with fclones' own splitter).
pub fn intended_files(script: &[u8]) -> Vec<Vec<u8>> {
    use std::os::unix::ffi::OsStrExt;
    let mut out: Vec<Vec<u8>> = vec![];
    let mut temps: BTreeSet<Vec<u8>> = BTreeSet::new();
    for line in String::from_utf8_lossy(script).lines() {
        let Ok(words) = fclones::verif::split(line) else { continue };
        let w: Vec<Vec<u8>> = words.iter().map(|a| a.as_os_str().as_bytes().to_vec()).collect();
        if w.is_empty() {
            continue;
        }
        match (w[0].as_slice(), w.len()) {
            (b"rm", 2) => {
                if !temps.contains(&w[1]) {
                    out.push(w[1].clone());
                }
            }
            (b"mv", 3) => {
                // either "mv file tmp" (link ops; the ln line follows) or "mv src target" (move)
                out.push(w[1].clone());
                temps.insert(w[2].clone());
            }
            (b"cp", 3) => out.push(w[1].clone()),
            _ => {}
        }
    }
    out.sort();
    out.dedup();
    out
}

pub fn run_case(c: &C20Case, n: u64) -> Verdict {
    let d = &c.d;
    let g = build_and_group("c20", d, n, Fs::Tmpfs);
    let target = target_dir(&g.cd, d);
    if d.op == Op::Move && d.move_target >= 2 {
        let _ = std::fs::create_dir_all(&target);
    }
    let v = judge(c, &g, &target);
    if target.starts_with("/var/tmp/fcvw") {
        let _ = std::fs::remove_dir_all(&target);
    }
    v
}

fn judge(c: &C20Case, g: &Grouped, target: &std::path::PathBuf) -> Verdict {
    // making the locked files read-only changes their status-change time between the dry run that
    // tells the intention and the real run: such priorities are replaced in those cases
    let mut d_adj = c.d.clone();
    if c.readonly {
        for p in d_adj.dopts.priority.iter_mut() {
            if *p % 12 == 8 || *p % 12 == 9 {
                *p = 0;
            }
        }
    }
    let d = &d_adj;
    if g.group.timed_out {
        return Verdict::Inconclusive("timeout".into());
    }
    if !g.group.ok() {
        return Verdict::Discard("group-rejected".into());
    }
    let tree = g.cd.tree();
    let files = file_list(&g.built);
    // lock-free intention: dry run of the same command (always with --no-lock semantics irrelevant)
    let (dry_args, _) = dedupe_args(d, &files, &g.canon_roots, target, true);
    let dry = Run::fclones(&g.cd).args(&dry_args).stdin(g.report_bytes.clone()).run();
    if !dry.ok() {
        if dry.crashed() {
            return Verdict::fail("dry-run-crash", dry.brief());
        }
        return Verdict::Discard("dedupe-rejected".into());
    }
    let intended = intended_files(&dry.stdout);
    if intended.is_empty() {
        return Verdict::pass(false, &["nothing-to-drop"]);
    }
    let lock_set: BTreeSet<Vec<u8>> = if c.lock_all {
        intended.iter().cloned().collect()
    } else {
        c.locked.iter().map(|s| intended[pick(*s, intended.len())].clone()).collect()
    };
    // a directory in which record locks are "not supported": nothing below it is locked by the harness
    let nolock: Option<std::path::PathBuf> = match c.nolock_dir {
        Some(s) if std::path::Path::new(SHIM).exists() && !c.readonly => bytes_path(&intended[pick(s, intended.len())]).parent().map(|p| p.to_path_buf()),
        _ => None,
    };
    let lock_set: BTreeSet<Vec<u8>> = match &nolock {
        Some(d) => lock_set.into_iter().filter(|p| !bytes_path(p).starts_with(d)).collect(),
        None => lock_set,
    };
    let before = Snapshot::take(&[&tree, target]);
    // a lock is a property of the inode: all hard links of a locked file are locked
    let locked_ids: BTreeSet<(u64, u64)> = lock_set.iter().filter_map(|p| before.get(p).map(|n| n.id())).collect();
    let lock_set: BTreeSet<Vec<u8>> =
        intended.iter().filter(|p| before.get(p).map(|n| locked_ids.contains(&n.id())).unwrap_or(false)).cloned().collect();
    // (a hard link of a locked file that lives below the lock-less directory is reached without a lock
    // check, which is what such a file system implies: those paths are not expected to stay)
    let lock_set: BTreeSet<Vec<u8>> = match &nolock {
        Some(d) => lock_set.into_iter().filter(|p| !bytes_path(p).starts_with(d)).collect(),
        None => lock_set,
    };
    let mut held = vec![];
    let mut done: BTreeSet<(u64, u64)> = BTreeSet::new();
    for p in &lock_set {
        let id = before.get(p).map(|n| n.id()).unwrap_or((0, 0));
        if !done.insert(id) {
            continue;
        }
        match ofd_lock(&bytes_path(p), c.range, c.read_lock) {
            Some(f) => held.push(f),
            None => return Verdict::Inconclusive("harness could not take OFD lock".into()),
        }
    }
    let (args, _) = dedupe_args(d, &files, &g.canon_roots, target, false);
    let mut run = Run::fclones(&g.cd).args(&args).stdin(g.report_bytes.clone());
    if let Some(d) = &nolock {
        run = run.env("LD_PRELOAD", SHIM).env("FCV_ROOT", format!("{}:{}", tree.display(), target.display())).env("FCV_NOLOCK_DIR", d).env("RAYON_NUM_THREADS", "1");
    }
    let mut lstat_faulted = false;
    if let (Some(n), None, false, Some(first)) = (c.lstat_fault, &nolock, c.readonly, lock_set.iter().next()) {
        if std::path::Path::new(SHIM).exists() {
            run = run
                .env("LD_PRELOAD", SHIM)
                .env("FCV_ROOT", format!("{}:{}", tree.display(), target.display()))
                .env("FCV_FAULT", format!("fn=lstat,path={},n={},errno=EIO", String::from_utf8_lossy(first), n))
                .env("RAYON_NUM_THREADS", "1");
            lstat_faulted = true;
        }
    }
    let mut enolck = false;
    if c.conflict_enolck && nolock.is_none() && !c.readonly && !lstat_faulted && std::path::Path::new(SHIM).exists() {
        run = run.env("LD_PRELOAD", SHIM).env("FCV_ROOT", format!("{}:{}", tree.display(), target.display())).env("FCV_LOCK_CONFLICT_ENOLCK", "1");
        enolck = true;
    }
    let before = if c.readonly && std::path::Path::new("/usr/bin/setpriv").exists() {
        use std::os::unix::fs::PermissionsExt;
        for p in &lock_set {
            let _ = std::fs::set_permissions(bytes_path(p), std::fs::Permissions::from_mode(0o444));
        }
        let mut a: Vec<std::ffi::OsString> = vec!["--bounding-set=-dac_override,-dac_read_search".into(), FCLONES_BIN.into()];
        a.extend(args.iter().cloned());
        run = Run::program(&g.cd, "/usr/bin/setpriv").args(&a).stdin(g.report_bytes.clone());
        Snapshot::take(&[&tree, target])
    } else {
        before
    };
    let cmd = format!("{}\n{} < report   [locked by another open file description: {:?}]", g.group_cmd, run.cmdline(), lock_set.iter().map(|p| B(p.clone())).collect::<Vec<_>>());
    let out = run.run();
    let after = Snapshot::take(&[&tree, target]);
    drop(held);
    let mut sig = vec![format!("op-{}", d.op.name()), if d.dopts.no_lock { "no-lock".to_string() } else { "locking".to_string() }, format!("lock-range-{}", c.range % 4), format!("target-{}", d.move_target)];
    sig.push(if c.read_lock { "foreign-read-lock".into() } else { "foreign-write-lock".into() });
    if c.readonly {
        sig.push("locked-files-read-only-no-dac-override".into());
    }
    if nolock.is_some() {
        sig.push("one-directory-without-lock-support".into());
    }
    if lstat_faulted {
        sig.push("lstat-of-a-locked-file-fails".into());
    }
    if enolck {
        sig.push("lock-conflict-reported-as-enolck".into());
    }
    let fail = |clause: &str, detail: String| Verdict::Fail { clause: clause.into(), detail: format!("{}\n{}\n{}", cmd, detail, out.brief()), sig: sig.clone() };
    if out.timed_out {
        return Verdict::Inconclusive("timeout".into());
    }
    if out.crashed() {
        return fail("crash", String::new());
    }
    let reflink_unsupported = d.op == Op::Dedupe;
    let mut unlocked_processed = 0;
    for p in &intended {
        let is_locked = lock_set.contains(p);
        let same = untouched(&before, &after, p);
        if is_locked && !d.dopts.no_lock {
            if !same {
                return fail("locked-file-touched", format!("{:?} is locked by another process but was removed/replaced/moved", B(p.clone())));
            }
        } else if !reflink_unsupported && !lstat_faulted {
            // (with a failing lstat fclones may skip the whole group of that file: only "locked files are left alone" is judged then)
            // must be processed as in the lock-free run; a hard link to an identical inode is a no-op in the inventory
            let noop_link = d.op == Op::Link && before.get(p).map(|n| n.nlink > 1).unwrap_or(false);
            if same && !noop_link {
                return fail("unlocked-file-not-processed", format!("{:?} is not locked{} but was left in place", B(p.clone()), if d.dopts.no_lock { " (--no-lock given)" } else { "" }));
            }
            if !same {
                unlocked_processed += 1;
            }
        }
    }
    if !d.dopts.no_lock && !lock_set.is_empty() && !reflink_unsupported {
        // the failure is reported for the locked files
        if !out.stderr_s().contains("warn") {
            return fail("no-warning-for-locked-file", "stderr contains no warning".into());
        }
    }
    let nontrivial = !lock_set.is_empty() && lock_set.len() < intended.len() && !reflink_unsupported;
    let _ = unlocked_processed;
    Verdict::Pass { nontrivial, classes: sig.clone() }
}

pub fn check(tier: Tier) -> i32 {
    let ctx = Ctx::new("C20", tier);
    replay_corpus::<C20Case, _>(&ctx, run_case);
    drive(&ctx, "main", tier.pick(6000, 40000), case_strategy, run_case);
    cleanup_process_scratch();
    ctx.finish(
        "exploration",
        "proptest-generated dedupe scenarios (hostile file names, hard links, priorities, -n, isolate) x operation (remove, link, link --soft, move, dedupe) x a non-empty subset of the files the command intends to process (learnt from a dry run) locked by the harness with open-file-description write or read locks (whole file or byte ranges) x --no-lock on/off; in a fifth of the cases the locked files are read-only and fclones runs without CAP_DAC_OVERRIDE (setpriv), like an ordinary user who may delete but not open them for writing; in another fifth record locks are refused with EOPNOTSUPP below the directory of one intended file (interposer; a file system without lock support, files there are not locked by the harness, single worker thread); in 15 % one lstat of a locked file fails with EIO (the locked file must still be left alone). in a fifth of the cases the interposer turns the conflict answer (EAGAIN/EACCES) to fclones' own lock request into ENOLCK, as a lock manager in trouble does. Oracle: without --no-lock every locked file is untouched (same inode, bytes, path) and a warning is logged, every unlocked intended file is processed; with --no-lock all intended files are processed. Non-trivial = at least one locked and one unlocked intended file in the same run (operation other than the unsupported reflink).",
        &["F_OFD_SETLK write/read locks held by the harness conflict with fclones' fcntl(F_SETLK) like a lock of a foreign process", "reflink is unsupported here: for `dedupe` only 'locked files untouched' is checked"],
    )
}

pub fn replay(file: &std::path::Path) -> i32 {
    replay_one::<C20Case, _>("C20", file, run_case)
}
