//! C08 Dedupe obeys keep/drop patterns, priorities, link sets and -n.

use crate::common::*;
use crate::ded::*;
use crate::glob::ref_match;
use crate::grp::*;
use crate::report::*;
use crate::run::*;
use crate::snap::*;
use crate::tree::*;
use crate::util::*;
use std::collections::BTreeSet;
use std::os::unix::fs::MetadataExt;
use std::path::PathBuf;

fn profile() -> ScenarioProfile {
    ScenarioProfile {
        names: Names::Meta,
        dir_names: Names::Meta,
        patterns: true,
        priorities: true,
        symlinks: false,
        match_links_ok: true,
        rf: true,
        ops: vec![Op::Remove, Op::Remove, Op::Link, Op::SoftLink, Op::Move],
        files: (5, 16),
        hardlinks: 3,
    }
}

/// The scenarios of the shared generator; one report in six comes from `group --transform 'head -c 3'`, so
/// that members of a group differ in size and the size check of the dedupe commands must be off because
/// the header says so.
fn main_strategy() -> proptest::strategy::BoxedStrategy<DCase> {
    use proptest::prelude::*;
    (dcase_strategy(profile()), prop::bool::weighted(0.17))
        .prop_map(|(mut d, tr)| {
            if tr {
                d.gopts.transform = Some(Tr { op: TrOp::Head(3), io: TrIo::Pipe });
            }
            d
        })
        .boxed()
}

/// File names from the hostile class (blanks, quotes, control characters, bytes that are not valid UTF-8):
/// keep/drop patterns on *paths* must treat such names like any other.
fn hostile_strategy() -> proptest::strategy::BoxedStrategy<DCase> {
    let mut sp = profile();
    sp.names = Names::Hostile;
    dcase_strategy(sp)
}

/// Large groups: 24-48 files, nearly all with the same content, so that one group has more than 20
/// sub-groups (sorting algorithms switch strategy at about that size) with many tied keys.
fn big_strategy() -> proptest::strategy::BoxedStrategy<DCase> {
    use proptest::prelude::*;
    let mut sp = profile();
    sp.files = (24, 48);
    sp.hardlinks = 2;
    dcase_strategy(sp)
        .prop_map(|mut d| {
            let mut k = 0;
            for e in d.tree.entries.iter_mut() {
                if let Kind::File(c) = &mut e.kind {
                    k += 1;
                    if k % 9 != 0 {
                        *c = Content { class: 0, size: 7, flip: None };
                    }
                }
            }
            d
        })
        .boxed()
}

#[derive(Clone, Debug)]
struct Meta {
    id: (u64, u64),
    mtime: (i64, i64),
    atime: (i64, i64),
    ctime: (i64, i64),
    btime: Option<std::time::SystemTime>,
    nesting: usize,
}

fn meta_of(p: &[u8]) -> Option<Meta> {
    let pb = bytes_path(p);
    let m = std::fs::metadata(&pb).ok()?;
    Some(Meta {
        id: (m.dev(), m.ino()),
        mtime: (m.mtime(), m.mtime_nsec()),
        atime: (m.atime(), m.atime_nsec()),
        ctime: (m.ctime(), m.ctime_nsec()),
        btime: m.created().ok(),
        nesting: pb.components().count(),
    })
}

struct Sg {
    files: Vec<Vec<u8>>,
    metas: Vec<Meta>,
}

/// Aggregated key of a sub-group for a priority; None when members disagree (undocumented aggregation).
fn key_of(sg: &Sg, prio: u8) -> Option<i128> {
    let k = |m: &Meta| -> Option<i128> {
        Some(match prio {
            2 | 3 => {
                let d = m.btime?.duration_since(std::time::UNIX_EPOCH).ok()?;
                d.as_nanos() as i128
            }
            4 | 5 => m.mtime.0 as i128 * 1_000_000_000 + m.mtime.1 as i128,
            6 | 7 => m.atime.0 as i128 * 1_000_000_000 + m.atime.1 as i128,
            8 | 9 => m.ctime.0 as i128 * 1_000_000_000 + m.ctime.1 as i128,
            10 | 11 => m.nesting as i128,
            _ => 0,
        })
    };
    let first = k(&sg.metas[0])?;
    for m in &sg.metas[1..] {
        if k(m)? != first {
            return None;
        }
    }
    Some(first)
}

pub fn run_case(c: &DCase, n: u64) -> Verdict {
    let g = build_and_group("c08", c, n, Fs::Tmpfs);
    let target = target_dir(&g.cd, c);
    if c.op == Op::Move && c.move_target >= 2 {
        let _ = std::fs::create_dir_all(&target);
    }
    let v = judge(c, &g, &target);
    if target.starts_with("/var/tmp/fcvw") {
        let _ = std::fs::remove_dir_all(&target);
    }
    v
}

fn judge(c: &DCase, g: &Grouped, target: &PathBuf) -> Verdict {
    let mut sig = vec![format!("op-{}", c.op.name())];
    let ctxt0 = g.group_cmd.clone();
    if g.group.timed_out {
        return Verdict::Inconclusive("timeout".into());
    }
    if !g.group.ok() {
        if g.group.crashed() {
            return Verdict::fail("group-crash", format!("{}\n{}", ctxt0, g.group.brief()));
        }
        return Verdict::Discard("group-rejected".into());
    }
    let report = match if c.text { parse_text(&g.report_bytes) } else { parse_json(&g.report_bytes) } {
        Ok(r) => r,
        Err(e) => return Verdict::fail("harness-cannot-parse-report", format!("{}\n{}", ctxt0, e)),
    };
    let tree = g.cd.tree();
    // controlled, frequently tied timestamps – set after group, before the inventory of metadata
    for e in &g.built.entries {
        if matches!(e.kind, BuiltKind::File) && e.spec_index != usize::MAX {
            let t = c.tree.entries[e.spec_index].mtime as i64;
            set_times(&e.abs, BASE_TIME + (t % 4) * 10, 0, BASE_TIME + 100_000 + ((t / 4) % 4) * 10);
        }
    }
    let before = Snapshot::take(&[&tree, target]);
    // atime may have been touched by the inventory's reads: set again, then read all metadata back
    for e in &g.built.entries {
        if matches!(e.kind, BuiltKind::File) && e.spec_index != usize::MAX {
            let t = c.tree.entries[e.spec_index].mtime as i64;
            set_times(&e.abs, BASE_TIME + (t % 4) * 10, 0, BASE_TIME + 100_000 + ((t / 4) % 4) * 10);
        }
    }
    let files = file_list(&g.built);
    let (args, rp) = dedupe_args(c, &files, &g.canon_roots, target, false);
    let eff = effective(c, &g.canon_roots);

    // ---- reference keep/drop rule ----------------------------------------------------------------
    let mut expected_drop: BTreeSet<Vec<u8>> = BTreeSet::new();
    let mut expected_noop: BTreeSet<Vec<u8>> = BTreeSet::new();
    let mut ambiguous = false;
    let mut chained_tie = false;
    let mut keep_hits_linkset = false;
    let mut droppable_sgs_max = 0;
    let matches_any = |pats: &Vec<String>, s: &str| pats.iter().any(|p| ref_match(p, s, false).unwrap_or(false));
    for grp in &report.groups {
        let sgs_paths = ref_sub_groups(&grp.files, &before, &eff);
        let mut sgs: Vec<Sg> = vec![];
        for sp in sgs_paths {
            let metas: Option<Vec<Meta>> = sp.iter().map(|p| meta_of(p)).collect();
            let Some(metas) = metas else { return Verdict::Inconclusive("stat failed".into()) };
            sgs.push(Sg { files: sp, metas });
        }
        // priorities: applied from the last to the first, stable
        for (pi, prio) in c.dopts.priority.iter().enumerate().rev() {
            let prio = *prio % 12;
            match prio {
                0 => sgs.reverse(),
                1 => {}
                _ => {
                    let keys: Option<Vec<i128>> = sgs.iter().map(|s| key_of(s, prio)).collect();
                    let Some(keys) = keys else {
                        ambiguous = true;
                        continue;
                    };
                    if pi == 0 && c.dopts.priority.len() > 1 {
                        let ks: BTreeSet<i128> = keys.iter().copied().collect();
                        if ks.len() < keys.len() {
                            chained_tie = true;
                        }
                    }
                    let mut idx: Vec<usize> = (0..sgs.len()).collect();
                    let asc = matches!(prio, 2 | 4 | 6 | 8 | 10);
                    idx.sort_by(|a, b| if asc { keys[*a].cmp(&keys[*b]) } else { keys[*b].cmp(&keys[*a]) });
                    let mut taken: Vec<Option<Sg>> = sgs.into_iter().map(Some).collect();
                    sgs = idx.into_iter().map(|i| taken[i].take().unwrap()).collect();
                }
            }
        }
        // forced-retained: matches a keep pattern, or not every member matches the drop patterns
        let mut retained: Vec<&Sg> = vec![];
        let mut droppable: Vec<&Sg> = vec![];
        for sg in &sgs {
            let keep = sg.files.iter().any(|f| {
                let p = bytes_path(f);
                let name = p.file_name().map(|n| n.to_string_lossy().to_string()).unwrap_or_default();
                matches_any(&rp.keep_name, &name) || matches_any(&rp.keep_path, &p.to_string_lossy())
            });
            let may_drop = sg.files.iter().all(|f| {
                let p = bytes_path(f);
                let name = p.file_name().map(|n| n.to_string_lossy().to_string()).unwrap_or_default();
                (rp.name.is_empty() && rp.path.is_empty()) || matches_any(&rp.name, &name) || matches_any(&rp.path, &p.to_string_lossy())
            });
            if keep && sg.files.len() > 1 {
                keep_hits_linkset = true;
            }
            if keep || !may_drop {
                retained.push(sg);
            } else {
                droppable.push(sg);
            }
        }
        droppable_sgs_max = droppable_sgs_max.max(droppable.len());
        let missing = droppable.len().min(eff.n.saturating_sub(retained.len()));
        let (top_up, dropped) = droppable.split_at(missing);
        let mut keep_list: Vec<&Sg> = retained.clone();
        keep_list.extend(top_up.iter().copied());
        let retained_id = keep_list.first().map(|s| s.metas[0].id);
        for sg in dropped {
            for (f, m) in sg.files.iter().zip(sg.metas.iter()) {
                expected_drop.insert(f.clone());
                if c.op == Op::Link && Some(m.id) == retained_id {
                    expected_noop.insert(f.clone());
                }
            }
        }
    }

    // ---- the real run ---------------------------------------------------------------------------
    // the report records the base directory of the `group` run, so the dedupe command may be started
    // anywhere: every other case runs it from the parent of the tree
    let elsewhere = c.tree.entries.len() % 2 == 1;
    let mut run = Run::fclones(&g.cd).args(&args).stdin(g.report_bytes.clone());
    if elsewhere {
        run = run.cwd(&g.cd.base);
        sig.push("dedupe-started-in-another-directory".into());
    }
    let dedupe_cmd = format!("{}{} < report", if elsewhere { "cd .. && " } else { "" }, run.cmdline());
    let out = run.run();
    let after = Snapshot::take(&[&tree, target]);
    let ctxt = format!("{}\n{}", ctxt0, dedupe_cmd);
    if c.gopts.isolate || c.dopts.isolate {
        sig.push("isolate".into());
    }
    if c.dopts.rf_over.is_none() && matches!(c.gopts.rf, RfOpt::Over(_)) {
        sig.push("inherited-n".into());
    }
    let fail = |clause: &str, detail: String| Verdict::Fail {
        clause: clause.into(),
        detail: format!("{}\n{}\ndedupe: {}", ctxt, detail, out.brief()),
        sig: sig.clone(),
    };
    if out.timed_out {
        return Verdict::Inconclusive("timeout".into());
    }
    if out.crashed() {
        return fail("dedupe-crash", String::new());
    }
    if !out.ok() {
        return fail("dedupe-error-exit", String::new());
    }
    let d = diff(&before, &after, false);
    let target_b = path_bytes(target);
    let under_target = |p: &Vec<u8>| p.starts_with(&target_b);
    let mut changed: BTreeSet<Vec<u8>> = BTreeSet::new();
    for p in d.removed.iter().chain(d.changed.iter()) {
        if under_target(p) {
            continue;
        }
        if before.get(p).map(|n| n.kind == NodeKind::Dir).unwrap_or(false) {
            continue;
        }
        changed.insert(p.clone());
    }
    let show = |s: &BTreeSet<Vec<u8>>| s.iter().map(|p| esc(p)).collect::<Vec<_>>().join(", ");

    // clause: files matching a keep pattern are never touched
    for p in &changed {
        let pb = bytes_path(p);
        let name = pb.file_name().map(|n| n.to_string_lossy().to_string()).unwrap_or_default();
        if matches_any(&rp.keep_name, &name) || matches_any(&rp.keep_path, &pb.to_string_lossy()) {
            return fail("keep-pattern-violated", format!("{:?} matches a keep pattern but was changed; changed: [{}]", B(p.clone()), show(&changed)));
        }
        if !(rp.name.is_empty() && rp.path.is_empty()) && !(matches_any(&rp.name, &name) || matches_any(&rp.path, &pb.to_string_lossy())) {
            return fail("drop-pattern-violated", format!("{:?} matches no --name/--path pattern but was changed; changed: [{}]", B(p.clone()), show(&changed)));
        }
    }
    // clause: sub-groups are kept or dropped as a whole
    for grp in &report.groups {
        for sg in ref_sub_groups(&grp.files, &before, &eff) {
            let touched = sg.iter().filter(|p| changed.contains(*p)).count();
            if touched != 0 && touched != sg.len() && c.op != Op::Link {
                return fail("sub-group-split", format!("sub-group {:?}: {} of {} members changed", sg.iter().map(|p| B(p.clone())).collect::<Vec<_>>(), touched, sg.len()));
            }
        }
    }
    // clause: exactly the expected files are dropped
    if !ambiguous {
        let want: BTreeSet<Vec<u8>> = expected_drop.difference(&expected_noop).cloned().collect();
        let extra: BTreeSet<Vec<u8>> = changed.difference(&expected_drop).cloned().collect();
        let missing: BTreeSet<Vec<u8>> = want.difference(&changed).cloned().collect();
        if !extra.is_empty() || !missing.is_empty() {
            return fail(
                "wrong-files-dropped",
                format!("expected to be dropped: [{}]\nactually changed:       [{}]\nn={} isolate_roots={} match_links={}", show(&expected_drop), show(&changed), eff.n, eff.isolate_roots.len(), eff.match_links),
            );
        }
    }
    let inherited = (c.dopts.rf_over.is_none() && matches!(c.gopts.rf, RfOpt::Over(_))) || (c.gopts.isolate && !c.dopts.isolate) || (c.gopts.match_links && !c.dopts.match_links);
    let nontrivial = droppable_sgs_max >= 2 && (chained_tie || keep_hits_linkset || inherited);
    let mut classes = sig.clone();
    if ambiguous {
        classes.push("ambiguous-aggregation-skipped-exact-check".into());
    }
    if chained_tie {
        classes.push("chained-priorities-with-tie".into());
    }
    if !c.dopts.priority.is_empty() {
        classes.push(format!("priorities-{}", c.dopts.priority.len()));
    }
    if !(rp.name.is_empty() && rp.path.is_empty() && rp.keep_name.is_empty() && rp.keep_path.is_empty()) {
        classes.push("patterns".into());
    }
    if c.gopts.transform.is_some() {
        classes.push("report-from-transform-size-check-off".into());
    }
    if droppable_sgs_max > 20 {
        classes.push("more-than-20-droppable-sub-groups".into());
    }
    Verdict::Pass { nontrivial, classes }
}

pub fn check(tier: Tier) -> i32 {
    let ctx = Ctx::new("C08", tier);
    replay_corpus::<DCase, _>(&ctx, run_case);
    drive(&ctx, "main", tier.pick(6000, 60000), main_strategy, run_case);
    drive(&ctx, "big-groups", tier.pick(800, 6000), big_strategy, run_case);
    drive(&ctx, "hostile-names", tier.pick(1500, 12000), hostile_strategy, run_case);
    cleanup_process_scratch();
    ctx.finish(
        "exploration",
        "proptest-generated groups of tiny files (names with regex metacharacters and non-ASCII text, hard-link subsets, 1-3 roots, nesting 0-2) with frequently tied mtimes/atimes set by the harness after `group` (ctime/btime read back with stat); dedupe options: --priority lists of length 0-3 over all 12 values, keep/drop globs built from actual names and directories, n in 1..3 explicit or inherited from `group --rf-over`, --isolate / -H explicit or inherited through the report header (text and JSON), one report in six from `group --transform 'head -c 3'` (members of different sizes, size check switched off by the header); every other dedupe command is started in a directory other than the one `group` ran in. A third generator uses hostile file names (blanks, quotes, control characters, invalid UTF-8). A second generator produces groups of 20-48 replicas (more than 20 sub-groups, many tied keys). Oracle: reference keep/drop rule (sub-groups: isolate roots in order, file id, singletons; stable sorts from the last priority to the first; forced retention by patterns; top-up to n from the front) vs the set of files a real run changed; separate clauses for keep patterns, drop patterns and sub-group atomicity. Non-trivial = >=2 droppable sub-groups in some group AND (chained priorities with a tie in the first key OR a keep pattern hitting a multi-path sub-group OR a setting inherited from the header).",
        &["how a time/nesting priority ranks a sub-group whose members differ in that key is undocumented: such cases skip the exact comparison (counted)", "glob semantics per the reference matcher (README Path Globbing)"],
    )
}

pub fn replay(file: &std::path::Path) -> i32 {
    replay_one::<DCase, _>("C08", file, run_case)
}
