//! C12 The hash cache never changes results.

use crate::common::*;
use crate::grp::*;
use crate::report::*;
use crate::run::*;
use crate::tree::*;
use crate::util::*;
use proptest::prelude::*;
use serde::{Deserialize, Serialize};
use std::os::unix::fs::MetadataExt;
use std::path::{Path, PathBuf};
use std::time::Duration;

#[derive(Clone, Debug, Serialize, Deserialize)]
pub enum CEdit {
    /// new file with the given content
    Create(u16, Content),
    /// same length, different bytes in the middle (shares prefix and suffix with the old content)
    RewriteSameLen(u16, u16),
    /// replace the content by that of another file (same length class), keeping prefix/suffix
    CopyContentFrom(u16, u16),
    Append(u16, bool),
    Truncate(u16, bool),
    Rename(u16, u16),
    DeleteRecreate(u16, u16),
    HardLink(u16, u16),
    /// in-place rewrite of the same length whose new mtime is *older* than the one the cache saw
    /// (restore from a backup with `cp -p`, `touch -d`): the mtime still changes, as the property requires
    RewriteOlder(u16, u16),
    /// start `group --cache` and SIGKILL it after this many milliseconds
    Kill(u8),
    /// run `group --cache` under the interposer, block it at its k-th read-side libc call on a tree file
    /// (stat, open, read, ...), rewrite a file in place with the same length and a new mtime while it is
    /// blocked, then let it finish: the file changes *during* a cached run; (file selector, k selector)
    RewriteDuringCachedRun(u16, u16),
    /// create the key file of the `needkey` transform (outside the scanned tree) if it is absent: without
    /// it the transform fails after partial output for every file
    ToggleKey,
}

#[derive(Clone, Debug, Serialize, Deserialize)]
pub struct Step {
    pub edits: Vec<CEdit>,
    pub hash_fn: u8,
    pub transform: Option<Tr>,
    pub max_prefix: Option<u64>,
    pub max_suffix: Option<u64>,
    pub disk: u8,
}

#[derive(Clone, Debug, Serialize, Deserialize)]
pub struct C12Case {
    pub files: Vec<Content>,
    pub steps: Vec<Step>,
    pub ext4: bool,
    /// the scanned directory holds two freshly mounted tmpfs file systems whose files were created in
    /// the same order (equal inode numbers) with equal lengths and equal mtimes but different bytes
    #[serde(default)]
    pub twin_fs: bool,
    /// the history starts with the hash database that a SIGKILLed `group --cache` left behind on
    /// 2026-10-05 (corpus/C12/fixtures/badcache1.tgz; sled reports it as corrupted)
    #[serde(default)]
    pub corrupt_cache_fixture: bool,
}

const SIZES: [u64; 8] = [5000, 16384, 20000, 65536, 70000, 100000, 131072, 140000];

fn content() -> BoxedStrategy<Content> {
    (0u32..2, 0u16..u16::MAX, prop::option::weighted(0.5, 0u16..u16::MAX))
        .prop_map(|(class, s, flip)| {
            let size = SIZES[pick(s, SIZES.len())];
            let flip = flip.map(|f| {
                let offs = interesting_offsets(size);
                offs[pick(f, offs.len())]
            });
            Content { class, size, flip }
        })
        .boxed()
}

fn case_strategy() -> BoxedStrategy<C12Case> {
    let edit = prop_oneof![
        2 => (0u16..u16::MAX, content()).prop_map(|(a, c)| CEdit::Create(a, c)),
        5 => (0u16..u16::MAX, 0u16..u16::MAX).prop_map(|(a, b)| CEdit::RewriteSameLen(a, b)),
        3 => (0u16..u16::MAX, 0u16..u16::MAX).prop_map(|(a, b)| CEdit::CopyContentFrom(a, b)),
        1 => (0u16..u16::MAX, any::<bool>()).prop_map(|(a, b)| CEdit::Append(a, b)),
        1 => (0u16..u16::MAX, any::<bool>()).prop_map(|(a, b)| CEdit::Truncate(a, b)),
        2 => (0u16..u16::MAX, 0u16..u16::MAX).prop_map(|(a, b)| CEdit::Rename(a, b)),
        3 => (0u16..u16::MAX, 0u16..u16::MAX).prop_map(|(a, b)| CEdit::DeleteRecreate(a, b)),
        1 => (0u16..u16::MAX, 0u16..u16::MAX).prop_map(|(a, b)| CEdit::HardLink(a, b)),
        2 => (0u16..u16::MAX, 0u16..u16::MAX).prop_map(|(a, b)| CEdit::RewriteOlder(a, b)),
        1 => (1u8..30).prop_map(CEdit::Kill),
        1 => Just(CEdit::ToggleKey),
        3 => (0u16..u16::MAX, 0u16..u16::MAX).prop_map(|(a, b)| CEdit::RewriteDuringCachedRun(a, b)),
    ];
    let knob = || prop::option::weighted(0.3, (0u16..u16::MAX).prop_map(|i| SIZE_KNOBS[pick(i, SIZE_KNOBS.len())]));
    let tr = prop::option::weighted(0.3, prop_oneof![Just(TrOp::Cat), Just(TrOp::Upper), Just(TrOp::Head(5000)), Just(TrOp::Head(17000)), Just(TrOp::Expand), Just(TrOp::Header), Just(TrOp::NeedKey), Just(TrOp::NeedKey)].prop_map(|op| Tr { op, io: TrIo::Pipe }));
    let step = (proptest::collection::vec(edit, 0..4), prop_oneof![3 => Just(0u8), 1 => 0u8..7], tr, knob(), knob(), prop_oneof![2 => Just(1u8), 1 => Just(2u8), 1 => Just(0u8)])
        .prop_map(|(edits, hash_fn, transform, max_prefix, max_suffix, disk)| Step { edits, hash_fn, transform, max_prefix, max_suffix, disk });
    (proptest::collection::vec(content(), 3..8), proptest::collection::vec(step, 1..=6), prop::bool::weighted(0.5), prop::bool::weighted(0.15), prop::bool::weighted(0.04))
        .prop_map(|(files, mut steps, ext4, twin_fs, corrupt_cache_fixture)| {
            // option changes between steps are the exception; mostly keep the configuration of the first step
            for i in 1..steps.len() {
                if i % 3 != 2 {
                    steps[i].hash_fn = steps[0].hash_fn;
                    steps[i].transform = steps[0].transform.clone();
                    steps[i].max_prefix = steps[0].max_prefix;
                    steps[i].max_suffix = steps[0].max_suffix;
                    steps[i].disk = steps[0].disk;
                } else if i % 2 == 0 {
                    // the same transform program with other arguments (head -c 5000 / head -c 17000,
                    // fcv-tr expand / fcv-tr header), everything else unchanged
                    let sibling = match steps[0].transform.as_ref().map(|t| &t.op) {
                        Some(TrOp::Head(5000)) => Some(TrOp::Head(17000)),
                        Some(TrOp::Head(_)) => Some(TrOp::Head(5000)),
                        Some(TrOp::Expand) => Some(TrOp::Header),
                        Some(TrOp::Header) => Some(TrOp::Expand),
                        _ => None,
                    };
                    if let Some(op) = sibling {
                        steps[i].hash_fn = steps[0].hash_fn;
                        steps[i].transform = Some(Tr { op, io: TrIo::Pipe });
                    }
                }
            }
            // a transform that needs its key: the first run has no key, the second step provides it
            if matches!(steps[0].transform.as_ref().map(|t| &t.op), Some(TrOp::NeedKey)) && steps.len() > 1 {
                steps[1].transform = steps[0].transform.clone();
                steps[1].hash_fn = steps[0].hash_fn;
                steps[1].edits.insert(0, CEdit::ToggleKey);
            }
            C12Case { files, steps, ext4, twin_fs, corrupt_cache_fixture }
        })
        .boxed()
}

/// Unmounts the twin file systems when the case ends, whichever way it ends.
struct MountGuard(Vec<PathBuf>);
impl Drop for MountGuard {
    fn drop(&mut self) {
        for m in &self.0 {
            let _ = std::process::Command::new("umount").arg("-l").arg(m).stdout(std::process::Stdio::null()).stderr(std::process::Stdio::null()).status();
        }
    }
}

struct World {
    dir: PathBuf,
    clock_ms: i64,
    counter: u32,
    inode_reuse: u32,
    same_len_rewrites_after_cached_run: u32,
    older_rewrites: u32,
    during_run: u32,
}

fn list(dir: &Path) -> Vec<PathBuf> {
    let mut v: Vec<PathBuf> = vec![];
    if let Ok(rd) = std::fs::read_dir(dir) {
        for e in rd.filter_map(|e| e.ok()) {
            let p = e.path();
            if p.is_file() {
                v.push(p);
            } else if p.is_dir() {
                v.extend(std::fs::read_dir(&p).map(|rd| rd.filter_map(|e| e.ok()).map(|e| e.path()).filter(|p| p.is_file()).collect::<Vec<_>>()).unwrap_or_default());
            }
        }
    }
    v.sort();
    v
}

impl World {
    fn stamp(&mut self, p: &Path) {
        self.clock_ms += 1;
        set_times(p, self.clock_ms / 1000, (self.clock_ms % 1000) * 1_000_000, BASE_TIME);
    }
    fn fresh_name(&mut self) -> PathBuf {
        self.counter += 1;
        self.dir.join(format!("f{}", self.counter))
    }
    fn write(&mut self, p: &Path, bytes: &[u8]) {
        let _ = std::fs::write(p, bytes);
        self.stamp(p);
    }
    fn apply(&mut self, e: &CEdit, cd: &CaseDir, step: &Step, after_cached_run: bool) -> String {
        let files = list(&self.dir);
        let pick_file = |s: u16| -> Option<PathBuf> { if files.is_empty() { None } else { Some(files[pick(s, files.len())].clone()) } };
        match e {
            CEdit::Create(_, c) => {
                let p = self.fresh_name();
                self.write(&p, &c.bytes());
                format!("create {}", p.display())
            }
            CEdit::RewriteSameLen(a, off) => {
                let Some(p) = pick_file(*a) else { return String::new() };
                let Ok(mut b) = std::fs::read(&p) else { return String::new() };
                if b.is_empty() {
                    return String::new();
                }
                let offs = interesting_offsets(b.len() as u64);
                let o = offs[pick(*off, offs.len())] as usize;
                b[o] = b[o].wrapping_add(1 + (self.counter % 200) as u8);
                self.counter += 1;
                // rewrite in place: same inode, same length
                if let Ok(mut f) = std::fs::OpenOptions::new().write(true).open(&p) {
                    use std::io::Write;
                    let _ = f.write_all(&b);
                }
                self.stamp(&p);
                if after_cached_run {
                    self.same_len_rewrites_after_cached_run += 1;
                }
                format!("rewrite-same-len {} @{}", p.display(), o)
            }
            CEdit::RewriteOlder(a, off) => {
                let Some(p) = pick_file(*a) else { return String::new() };
                let Ok(mut b) = std::fs::read(&p) else { return String::new() };
                if b.is_empty() {
                    return String::new();
                }
                let offs = interesting_offsets(b.len() as u64);
                let o = offs[pick(*off, offs.len())] as usize;
                b[o] = b[o].wrapping_add(3 + (self.counter % 150) as u8);
                self.counter += 1;
                if let Ok(mut f) = std::fs::OpenOptions::new().write(true).open(&p) {
                    use std::io::Write;
                    let _ = f.write_all(&b);
                }
                // a fresh value *below* every mtime handed out so far (the logical clock only grows)
                self.older_rewrites += 1;
                let t = BASE_TIME * 1000 - 10_000 - self.older_rewrites as i64;
                set_times(&p, t / 1000, (t % 1000) * 1_000_000, BASE_TIME);
                if after_cached_run {
                    self.same_len_rewrites_after_cached_run += 1;
                }
                format!("rewrite-same-len-older-mtime {} @{}", p.display(), o)
            }
            CEdit::CopyContentFrom(a, b2) => {
                let (Some(p), Some(q)) = (pick_file(*a), pick_file(*b2)) else { return String::new() };
                let (Ok(bp), Ok(bq)) = (std::fs::read(&p), std::fs::read(&q)) else { return String::new() };
                if bp.len() != bq.len() || p == q {
                    return String::new();
                }
                if let Ok(mut f) = std::fs::OpenOptions::new().write(true).open(&p) {
                    use std::io::Write;
                    let _ = f.write_all(&bq);
                }
                self.stamp(&p);
                if after_cached_run {
                    self.same_len_rewrites_after_cached_run += 1;
                }
                format!("make {} identical to {}", p.display(), q.display())
            }
            CEdit::Append(a, keep_mtime) => {
                let Some(p) = pick_file(*a) else { return String::new() };
                let old = std::fs::metadata(&p).ok();
                if let Ok(mut f) = std::fs::OpenOptions::new().append(true).open(&p) {
                    use std::io::Write;
                    let _ = f.write_all(b"appended-tail");
                }
                match (keep_mtime, old) {
                    (true, Some(m)) => set_times(&p, m.mtime(), m.mtime_nsec(), BASE_TIME),
                    _ => self.stamp(&p),
                }
                format!("append {} keep_mtime={}", p.display(), keep_mtime)
            }
            CEdit::Truncate(a, keep_mtime) => {
                let Some(p) = pick_file(*a) else { return String::new() };
                let Ok(m) = std::fs::metadata(&p) else { return String::new() };
                if m.len() < 2 {
                    return String::new();
                }
                if let Ok(f) = std::fs::OpenOptions::new().write(true).open(&p) {
                    let _ = f.set_len(m.len() - 1 - (m.len() / 3));
                }
                if *keep_mtime {
                    set_times(&p, m.mtime(), m.mtime_nsec(), BASE_TIME);
                } else {
                    self.stamp(&p);
                }
                format!("truncate {} keep_mtime={}", p.display(), keep_mtime)
            }
            CEdit::Rename(a, _) => {
                let Some(p) = pick_file(*a) else { return String::new() };
                let q = self.fresh_name();
                let _ = std::fs::rename(&p, &q);
                format!("rename {} -> {}", p.display(), q.display())
            }
            CEdit::DeleteRecreate(a, off) => {
                let Some(p) = pick_file(*a) else { return String::new() };
                let (Ok(mut b), Ok(m)) = (std::fs::read(&p), std::fs::metadata(&p)) else { return String::new() };
                if b.is_empty() {
                    return String::new();
                }
                let offs = interesting_offsets(b.len() as u64);
                let o = offs[pick(*off, offs.len())] as usize;
                b[o] = b[o].wrapping_add(7 + (self.counter % 100) as u8);
                self.counter += 1;
                let _ = std::fs::remove_file(&p);
                let _ = std::fs::write(&p, &b);
                self.stamp(&p);
                if std::fs::metadata(&p).map(|m2| m2.ino() == m.ino()).unwrap_or(false) {
                    self.inode_reuse += 1;
                    if after_cached_run {
                        self.same_len_rewrites_after_cached_run += 1;
                    }
                }
                format!("delete+recreate {} @{}", p.display(), o)
            }
            CEdit::HardLink(a, _) => {
                let Some(p) = pick_file(*a) else { return String::new() };
                let q = self.fresh_name();
                let _ = std::fs::hard_link(&p, &q);
                format!("hardlink {} -> {}", q.display(), p.display())
            }
            CEdit::RewriteDuringCachedRun(a, ksel) => {
                let Some(p) = pick_file(*a) else { return String::new() };
                let Ok(mut b) = std::fs::read(&p) else { return String::new() };
                if b.is_empty() || !std::path::Path::new(SHIM).exists() {
                    return String::new();
                }
                let o = b.len() / 2;
                b[o] = b[o].wrapping_add(11 + (self.counter % 100) as u8);
                self.counter += 1;
                self.clock_ms += 1;
                let t = self.clock_ms;
                let opts = step_opts(step, true);
                let mut run = Run::fclones(cd).arg("group").args(opts.args()).arg("--threads").arg("1").arg("r");
                if let Some(d) = opts.disk_env() {
                    run = run.env("FCLONES_VERIF_DISK_KIND", d);
                }
                // recording run on a copy of the cache: which read-side calls (numbered over the whole run)
                // touch this file? The blocking point is drawn from those (or, one time in four, from all).
                let rec_cache = cd.base.join("cache.rec");
                let _ = std::fs::remove_dir_all(&rec_cache);
                let _ = std::process::Command::new("cp").arg("-a").arg(cd.base.join("cache")).arg(&rec_cache).status();
                let log_path = cd.base.join("rec.log");
                let _ = std::fs::remove_file(&log_path);
                let _ = run.clone().env("XDG_CACHE_HOME", &rec_cache).env("LD_PRELOAD", SHIM).env("FCV_ROOT", cd.tree()).env("FCV_LOG", &log_path).run();
                let log = std::fs::read_to_string(&log_path).unwrap_or_default();
                let mut rlines: Vec<(u64, String)> = log
                    .lines()
                    .filter_map(|l| {
                        let f: Vec<&str> = l.split(' ').collect();
                        if f.len() >= 5 && f[2] == "R" {
                            Some((f[0].parse().ok()?, f[4].to_string()))
                        } else {
                            None
                        }
                    })
                    .collect();
                rlines.sort();
                let pe = esc(&path_bytes(&p));
                let on_file: Vec<usize> = rlines.iter().enumerate().filter(|(_, (_, path))| *path == pe).map(|(i, _)| i + 1).collect();
                let k = if !on_file.is_empty() && *ksel % 4 != 0 { on_file[pick(*ksel, on_file.len())] } else { 1 + pick(*ksel, rlines.len().max(1)) };
                let _ = std::fs::remove_dir_all(&rec_cache);
                let pp = p.clone();
                let mut rewrite = move || {
                    if let Ok(mut f) = std::fs::OpenOptions::new().write(true).open(&pp) {
                        use std::io::Write;
                        let _ = f.write_all(&b);
                    }
                    set_times(&pp, t / 1000, (t % 1000) * 1_000_000, BASE_TIME);
                };
                let (_o, paused) = run_paused(&run, &cd.base, &cd.tree(), 'R', k, &mut rewrite);
                if !paused {
                    rewrite();
                }
                if after_cached_run || paused {
                    self.same_len_rewrites_after_cached_run += 1;
                }
                if paused {
                    self.during_run += 1;
                }
                format!("rewrite-same-len {} @{} {}", p.display(), o, if paused { format!("while `group --cache` was blocked at its read-side call #{}", k) } else { "(after a cached run that had fewer calls)".to_string() })
            }
            CEdit::ToggleKey => {
                // only ever absent -> present: a transform whose outcome for an unchanged file turns from
                // success into failure is not a function of the file any more, and a cache may keep
                // serving its earlier, successful result
                let key = cd.base.join("key");
                if key.exists() {
                    String::new()
                } else {
                    let _ = std::fs::write(&key, b"k");
                    "create the transform's key file".to_string()
                }
            }
            CEdit::Kill(ms) => {
                let opts = step_opts(step, true);
                let mut cmd = std::process::Command::new(FCLONES_BIN);
                cmd.arg("group").args(opts.args()).arg("r").current_dir(cd.tree()).env_clear();
                for (k, v) in Run::fclones(cd).env {
                    cmd.env(k, v);
                }
                if let Some(d) = opts.disk_env() {
                    cmd.env("FCLONES_VERIF_DISK_KIND", d);
                }
                cmd.stdin(std::process::Stdio::null()).stdout(std::process::Stdio::null()).stderr(std::process::Stdio::null());
                if let Ok(mut ch) = cmd.spawn() {
                    std::thread::sleep(Duration::from_millis(*ms as u64));
                    let _ = ch.kill();
                    let _ = ch.wait();
                }
                format!("kill group --cache after {} ms", ms)
            }
        }
    }
}

fn step_opts(s: &Step, cache: bool) -> GOpts {
    GOpts { hash_fn: s.hash_fn, cache, transform: s.transform.clone(), max_prefix: s.max_prefix, max_suffix: s.max_suffix, disk: s.disk, ..GOpts::default() }
}

pub fn run_case(c: &C12Case, n: u64) -> Verdict {
    let cd = CaseDir::new("c12", n, if c.ext4 { Fs::Ext4 } else { Fs::Tmpfs });
    let dir = cd.tree().join("r");
    std::fs::create_dir_all(&dir).unwrap();
    let mut w = World { dir: dir.clone(), clock_ms: BASE_TIME * 1000, counter: 0, inode_reuse: 0, same_len_rewrites_after_cached_run: 0, older_rewrites: 0, during_run: 0 };
    if c.corrupt_cache_fixture {
        let _ = std::process::Command::new("tar")
            .arg("xzf")
            .arg(format!("{}/corpus/C12/fixtures/badcache1.tgz", VERIF))
            .arg("-C")
            .arg(cd.base.join("cache"))
            .stdout(std::process::Stdio::null())
            .stderr(std::process::Stdio::null())
            .status();
    }
    let mut mounts: Vec<PathBuf> = vec![];
    let mut twins = 0;
    if c.twin_fs {
        for name in ["fsA", "fsB"] {
            let m = dir.join(name);
            let _ = std::fs::create_dir_all(&m);
            let ok = std::process::Command::new("mount").args(["-t", "tmpfs", "-o", "size=16m", "tmpfs"]).arg(&m).stdout(std::process::Stdio::null()).stderr(std::process::Stdio::null()).status().map(|s| s.success()).unwrap_or(false);
            if ok {
                mounts.push(m);
            }
        }
    }
    let unmount = |mounts: &Vec<PathBuf>| {
        for m in mounts {
            let _ = std::process::Command::new("umount").arg("-l").arg(m).stdout(std::process::Stdio::null()).stderr(std::process::Stdio::null()).status();
        }
    };
    if mounts.len() == 2 {
        use std::os::unix::fs::MetadataExt;
        for (i, f) in c.files.iter().enumerate() {
            let a = mounts[0].join(format!("t{}", i));
            let b = mounts[1].join(format!("t{}", i));
            let bytes = f.bytes();
            let mut other = bytes.clone();
            if !other.is_empty() {
                let mid = other.len() / 2;
                other[mid] = other[mid].wrapping_add(1);
            }
            let _ = std::fs::write(&a, &bytes);
            let _ = std::fs::write(&b, &other);
            w.stamp(&a);
            // the twin carries exactly the same modification time
            if let Ok(m) = std::fs::metadata(&a) {
                set_times(&b, m.mtime(), m.mtime_nsec(), BASE_TIME);
            }
            if let (Ok(ma), Ok(mb)) = (std::fs::metadata(&a), std::fs::metadata(&b)) {
                if ma.ino() == mb.ino() && ma.dev() != mb.dev() {
                    twins += 1;
                }
            }
        }
    } else {
        unmount(&mounts);
        mounts.clear();
        for f in &c.files {
            let p = w.fresh_name();
            w.write(&p, &f.bytes());
        }
    }
    let _mount_guard = MountGuard(mounts.clone());
    let roots = vec![std::ffi::OsString::from("r")];
    let mut history: Vec<String> = vec![];
    let mut cached_runs = 0;
    let mut nontrivial = false;
    let mut prev_hash_fn: Option<u8> = None;
    for (si, step) in c.steps.iter().enumerate() {
        let rewrites_before = w.same_len_rewrites_after_cached_run;
        for e in &step.edits {
            let d = w.apply(e, &cd, step, cached_runs > 0);
            if !d.is_empty() {
                history.push(format!("step {}: {}", si, d));
            }
        }
        let uncached = run_group(&cd, &step_opts(step, false), &roots, "default", &[]);
        let cold = run_group(&cd, &step_opts(step, true), &roots, "default", &[]);
        let warm = run_group(&cd, &step_opts(step, true), &roots, "default", &[]);
        cached_runs += 2;
        history.push(format!("step {}: run {}", si, cold.cmdline));
        for r in [&uncached, &cold, &warm] {
            if r.out.timed_out {
                return Verdict::Inconclusive("timeout".into());
            }
            if r.out.crashed() {
                return Verdict::fail("crash", format!("{}\n{}", r.cmdline, r.out.brief()));
            }
        }
        if !uncached.out.ok() {
            return Verdict::Discard("group-rejected".into());
        }
        let b0 = text_body(&uncached.out.stdout);
        for (name, r) in [("first cached run", &cold), ("second cached run", &warm)] {
            if !r.out.ok() {
                return Verdict::fail("cached-run-fails", format!("{}\n{}\nhistory:\n{}", r.cmdline, r.out.brief(), history.join("\n")));
            }
            let b = text_body(&r.out.stdout);
            if b != b0 {
                let a = String::from_utf8_lossy(&b0).to_string();
                let bb = String::from_utf8_lossy(&b).to_string();
                let mut sig = vec![];
                if step.transform.is_some() {
                    sig.push("transform".to_string());
                }
                return Verdict::Fail {
                    clause: "cache-changes-result".into(),
                    detail: format!("{} at step {} differs from the uncached run\nhistory:\n{}\nuncached ({}):\n{}\ncached:\n{}", name, si, history.join("\n"), uncached.cmdline, a, bb),
                    sig,
                };
            }
        }
        if w.same_len_rewrites_after_cached_run > rewrites_before && prev_hash_fn == Some(step.hash_fn) {
            nontrivial = true;
        }
        prev_hash_fn = Some(step.hash_fn);
    }
    let mut classes = vec![format!("steps-{}", c.steps.len())];
    if w.inode_reuse > 0 {
        classes.push("inode-reused-on-recreate".into());
    }
    if w.older_rewrites > 0 {
        classes.push("rewrite-with-older-mtime".into());
    }
    if c.corrupt_cache_fixture {
        classes.push("starts-with-a-database-left-by-a-killed-run".into());
    }
    if w.during_run > 0 {
        classes.push("rewrite-while-a-cached-run-was-blocked".into());
    }
    if twins > 0 {
        classes.push("twin-file-systems-equal-inode-numbers".into());
    }
    if c.steps.iter().any(|s| matches!(s.transform.as_ref().map(|t| &t.op), Some(TrOp::NeedKey))) {
        classes.push("transform-that-fails-without-its-key".into());
    }
    if c.ext4 {
        classes.push("ext4".into());
    }
    Verdict::Pass { nontrivial, classes }
}

/// `group --cache` whose cache directory lives on a file system that runs full while hashes are
/// being stored: storing is an optimisation, so the result must still be the uncached one.
#[derive(Clone, Debug, Serialize, Deserialize)]
pub struct CacheFullCase {
    /// number of small files (sled buffers writes; the first failing store was observed after
    /// about 1800 entries, independent of the size of the file system)
    pub nfiles: u16,
    /// size of the tmpfs that holds XDG_CACHE_HOME, in KiB
    pub fs_kib: u16,
    /// files i and j have equal content iff i / class_size == j / class_size
    pub class_size: u8,
    pub hash_fn: u8,
}

fn cache_full_strategy() -> BoxedStrategy<CacheFullCase> {
    (1900u16..3600, prop_oneof![Just(8u16), Just(16), Just(64), Just(128), Just(256), Just(384)], 1u8..5, 0u8..3)
        .prop_map(|(nfiles, fs_kib, class_size, hash_fn)| CacheFullCase { nfiles, fs_kib, class_size, hash_fn })
        .boxed()
}

pub fn run_cache_full(c: &CacheFullCase, n: u64) -> Verdict {
    let cd = CaseDir::new("c12f", n, Fs::Tmpfs);
    let dir = cd.tree().join("r");
    std::fs::create_dir_all(&dir).unwrap();
    for i in 0..c.nfiles as usize {
        let class = i / c.class_size.max(1) as usize;
        let _ = std::fs::write(dir.join(format!("f{:05}", i)), format!("content of class {} ", class).repeat(1 + class % 4));
    }
    let small = cd.base.join("smallcache");
    let guard = {
        let _ = std::fs::create_dir_all(&small);
        let ok = std::process::Command::new("mount")
            .args(["-t", "tmpfs", "-o", &format!("size={}k", c.fs_kib), "tmpfs"])
            .arg(&small)
            .stdout(std::process::Stdio::null())
            .stderr(std::process::Stdio::null())
            .status()
            .map(|s| s.success())
            .unwrap_or(false);
        if !ok {
            return Verdict::Inconclusive("cannot mount a small tmpfs".into());
        }
        TwinMounts(vec![small.clone()])
    };
    let roots = vec![std::ffi::OsString::from("r")];
    let mut o = GOpts::default();
    o.hash_fn = c.hash_fn;
    let uncached = run_group(&cd, &o, &roots, "default", &[]);
    o.cache = true;
    let envs = vec![("XDG_CACHE_HOME".to_string(), small.to_string_lossy().to_string())];
    let first = run_group_env(&cd, &o, &roots, "default", &[], false, &envs);
    let second = run_group_env(&cd, &o, &roots, "default", &[], false, &envs);
    drop(guard);
    for r in [&uncached, &first, &second] {
        if r.out.timed_out {
            return Verdict::Inconclusive("timeout".into());
        }
        if r.out.crashed() {
            return Verdict::fail("crash", format!("{}\n{}", r.cmdline, r.out.brief()));
        }
    }
    if !uncached.out.ok() {
        return Verdict::Discard("group-rejected".into());
    }
    let store_failures = String::from_utf8_lossy(&first.out.stderr).matches("Failed to store").count();
    let sig = vec!["cache-file-system-full".to_string()];
    let b0 = text_body(&uncached.out.stdout);
    for (name, r) in [("first cached run", &first), ("second cached run", &second)] {
        // (a run that refuses to start because it cannot open its cache reports nothing wrong)
        if !r.out.ok() {
            continue;
        }
        let b = text_body(&r.out.stdout);
        if b != b0 {
            let count = |x: &[u8]| x.split(|c| *c == b'\n').filter(|l| !l.is_empty() && !l.starts_with(b" ")).count();
            return Verdict::Fail {
                clause: "cache-changes-result".into(),
                detail: format!(
                    "XDG_CACHE_HOME on a {} KiB tmpfs, {} small files in classes of {}: the {} ({}) reports {} groups, the uncached run {}; {} \"Failed to store\" warnings\n{}",
                    c.fs_kib,
                    c.nfiles,
                    c.class_size,
                    name,
                    r.cmdline,
                    count(&b),
                    count(&b0),
                    store_failures,
                    r.out.brief()
                ),
                sig,
            };
        }
    }
    let mut classes = sig.clone();
    if store_failures > 0 {
        classes.push("store-failures-observed".into());
    }
    if !first.out.ok() {
        classes.push("cached-run-refused".into());
    }
    Verdict::Pass { nontrivial: store_failures > 0 && first.out.ok(), classes }
}

pub fn check(tier: Tier) -> i32 {
    let ctx = Ctx::new("C12", tier);
    replay_corpus::<C12Case, _>(&ctx, run_case);
    drive(&ctx, "main", tier.pick(500, 8000), case_strategy, run_case);
    drive(&ctx, "cache-full", tier.pick(32, 400), cache_full_strategy, run_cache_full);
    cleanup_process_scratch();
    ctx.finish(
        "exploration",
        "proptest-generated histories of 1-6 steps over 3-7 files of 5-140 KB that share long prefixes and suffixes (two content classes, single-byte differences at stage-boundary offsets): each step applies 0-3 edits (create, in-place rewrite of the same length with a newer or with an older mtime, make identical to another file, append/truncate with or without keeping the mtime, rename, delete+recreate under the same name - on ext4 the inode is usually reused, counted -, hard link, SIGKILL of a running `group --cache` after 1-29 ms, an in-place same-length rewrite applied while a `group --cache --threads 1` run is blocked by the interposer at its k-th read-side libc call on a tree file (k drawn, after a recording run on a copy of the cache, from the calls that touch the file to be rewritten, or one time in four from all calls), creation of the key file without which the `needkey` transform fails after partial output) and then runs `group` uncached, cached (cold for this step) and cached again (warm), all with the same options; options (hash fn, transform - also the same program with other arguments -, max-prefix/suffix, pinned device) change on some steps. Every content change gets a fresh mtime (next value of a logical clock with 1 ms steps, or for the 'older' rewrites a fresh value 1 ms below every earlier one): the mtime always changes, which is the premise of the property. In 15 % of the histories the scanned directory holds two freshly mounted tmpfs file systems whose files were created in the same order (equal inode numbers, counted) with equal lengths and mtimes but different bytes. 4 % of the histories start with the (sled-corrupted) hash database a SIGKILLed run left behind (a saved fixture). A second stage puts XDG_CACHE_HOME on a freshly mounted tmpfs of 8-384 KiB and scans 1900-3600 small files in classes of 1-4 (sled buffers its writes: stores start failing with ENOSPC after about 1800 entries), uncached, cached and cached again; non-trivial there = `Failed to store` warnings were printed. Oracle (model = the uncached tool): report bodies incl. hashes and statistics must be byte-identical. Non-trivial = a same-length in-place rewrite or an inode-reusing recreate after a cached run, followed by a run with the same hash function.",
        &["mtimes are set by the harness with millisecond steps", "XDG_CACHE_HOME is private to the history"],
    )
}

pub fn replay(file: &std::path::Path) -> i32 {
    replay_one::<C12Case, _>("C12", file, run_case)
}
