//! C14 A report is internally consistent in every output format.

use crate::common::*;
use crate::grp::*;
use crate::report::*;
use crate::run::*;
use crate::tree::*;
use crate::util::*;
use proptest::prelude::*;
use serde::{Deserialize, Serialize};
use std::collections::BTreeMap;
use std::ffi::OsString;
use std::path::PathBuf;

#[derive(Clone, Debug, Serialize, Deserialize)]
pub struct C14Case {
    pub tree: TreeSpec,
    pub roots: usize,
    pub opts: GOpts,
    /// rotation applied to the order in which the roots are given (r0 r0x r1 is also the sorted order)
    #[serde(default)]
    pub root_rot: u8,
    /// the -o file exists already and is longer than the new report
    #[serde(default)]
    pub prefill_output: bool,
    /// a sub-directory of the first root is given as an additional root *before* it (nested roots:
    /// a path belongs to the first root in argument order that contains it)
    #[serde(default)]
    pub nested_root: bool,
    /// the -o run happens with stdout on a terminal (through `script`): the file must still be a plain report
    #[serde(default)]
    pub tty: bool,
}

fn case_strategy() -> BoxedStrategy<C14Case> {
    (1usize..=3)
        .prop_flat_map(|roots| {
            let mut p = Profile::plain();
            p.roots = roots;
            p.files = (4, 14);
            p.names = Names::Hostile;
            p.boundary_sizes = false;
            p.max_size = 5000;
            p.hardlinks = 4;
            p.symlinks = 1;
            p.near_dup_pairs = 0;
            p.classes = 2;
            let op = OptProfile { transform_w: 0.15, cache_w: 0.05, links: true, isolate: true, rf: true, max_roots: roots };
            (tree_strategy(&p), gopts_strategy(op), 0u8..3, any::<bool>(), prop::bool::weighted(0.3), prop::bool::weighted(0.25)).prop_map(move |(tree, mut opts, root_rot, prefill_output, nested_root, tty)| {
                opts.max_prefix = None;
                opts.max_suffix = None;
                opts.threads = vec![];
                opts.fix_isolate(roots);
                C14Case { tree, roots, opts, root_rot, prefill_output, nested_root, tty }
            })
        })
        .boxed()
}

fn id_of(p: &[u8]) -> Option<(u64, u64)> {
    use std::os::unix::fs::MetadataExt;
    std::fs::metadata(bytes_path(p)).ok().map(|m| (m.dev(), m.ino()))
}

/// Reference sub-grouping of the listed files, in listed order.
fn sub_groups(files: &[Vec<u8>], roots: &[PathBuf], by_id: bool) -> Vec<Vec<Vec<u8>>> {
    let mut root_groups: Vec<Vec<Vec<u8>>> = roots.iter().map(|_| vec![]).collect();
    let mut id_groups: Vec<((u64, u64), Vec<Vec<u8>>)> = vec![];
    let mut singles_after: Vec<Vec<Vec<u8>>> = vec![];
    for f in files {
        let p = bytes_path(f);
        if let Some(i) = roots.iter().position(|r| p.starts_with(r)) {
            root_groups[i].push(f.clone());
        } else if by_id {
            let id = id_of(f).unwrap_or((0, 0));
            if let Some(g) = id_groups.iter_mut().find(|(i, _)| *i == id) {
                g.1.push(f.clone());
            } else {
                id_groups.push((id, vec![f.clone()]));
            }
        } else {
            singles_after.push(vec![f.clone()]);
        }
    }
    let mut all: Vec<Vec<Vec<u8>>> = root_groups;
    // without roots the code appends singletons in place of root groups, then id groups
    all.extend(singles_after);
    all.extend(id_groups.into_iter().map(|g| g.1));
    all.retain(|g| !g.is_empty());
    all
}

pub fn run_case(c: &C14Case, n: u64) -> Verdict {
    let cd = CaseDir::new("c14", n, Fs::Tmpfs);
    let tree = cd.tree();
    c.tree.build(&tree);
    let mut roots = root_args(c.roots);
    let rot = c.root_rot as usize % roots.len().max(1);
    roots.rotate_left(rot);
    if rot == 1 && roots.len() == 3 {
        roots.swap(1, 2); // r0x r0 r1 -> not a rotation of the sorted order
    }
    if c.nested_root {
        // first sub-directory of r0 (if any) in front of everything else
        if let Some(sub) = std::fs::read_dir(tree.join(ROOT_NAMES[0])).ok().and_then(|rd| {
            let mut d: Vec<_> = rd.filter_map(|e| e.ok()).filter(|e| e.file_type().map(|t| t.is_dir()).unwrap_or(false)).map(|e| e.file_name()).collect();
            d.sort();
            d.into_iter().next()
        }) {
            let mut inner = OsString::from(ROOT_NAMES[0]);
            inner.push("/");
            inner.push(&sub);
            roots.insert(0, inner);
        }
    }
    // two more copies of the first regular file of r0, under names that differ only in bytes that are
    // not valid UTF-8 (their order in the report must not depend on which inode carries which name)
    let mut inv_pair: Option<(PathBuf, PathBuf)> = None;
    {
        use std::os::unix::ffi::OsStringExt;
        let r0 = tree.join(ROOT_NAMES[0]);
        let first = std::fs::read_dir(&r0).ok().and_then(|rd| {
            let mut f: Vec<_> = rd.filter_map(|e| e.ok()).filter(|e| e.file_type().map(|t| t.is_file()).unwrap_or(false)).map(|e| e.path()).collect();
            f.sort();
            f.into_iter().find(|p| std::fs::metadata(p).map(|m| m.len() > 0).unwrap_or(false))
        });
        if let Some(src) = first {
            if let Ok(bytes) = std::fs::read(&src) {
                let a = r0.join(OsString::from_vec(b"inv-\x80.raw".to_vec()));
                let b = r0.join(OsString::from_vec(b"inv-\x81.raw".to_vec()));
                if std::fs::write(&a, &bytes).is_ok() && std::fs::write(&b, &bytes).is_ok() {
                    set_times(&a, BASE_TIME + 7, 0, BASE_TIME);
                    set_times(&b, BASE_TIME + 7, 0, BASE_TIME);
                    inv_pair = Some((a, b));
                }
            }
        }
    }
    let mut sig: Vec<String> = vec![];
    if c.opts.isolate {
        sig.push("isolate".into());
    }
    if c.opts.match_links {
        sig.push("match-links".into());
    }
    if c.opts.transform.is_some() {
        sig.push("transform".into());
    }
    let run_fmt = |fmt: &str, extra: &[OsString]| run_group(&cd, &c.opts, &roots, fmt, extra);
    let text = run_fmt("default", &[]);
    let mk_fail = |clause: &str, cmd: &str, detail: String, sig: &Vec<String>| Verdict::Fail {
        clause: clause.into(),
        detail: format!("{}\n{}", cmd, detail),
        sig: sig.clone(),
    };
    if text.out.timed_out {
        return Verdict::Inconclusive("timeout".into());
    }
    if !text.out.ok() {
        if text.out.crashed() {
            return mk_fail("crash", &text.cmdline, text.out.brief(), &sig);
        }
        if let Some(r) = clean_rejection(&text.out) {
            return Verdict::Discard(format!("rejected:{}", r));
        }
        return mk_fail("error-exit", &text.cmdline, text.out.brief(), &sig);
    }
    let rep = match parse_text(&text.out.stdout) {
        Ok(r) => r,
        Err(e) => return mk_fail("text-unparsable", &text.cmdline, e, &sig),
    };
    let stats = match rep.header.as_ref().and_then(|h| h.stats.clone()) {
        Some(s) => s,
        None => return mk_fail("header-stats-missing", &text.cmdline, String::from_utf8_lossy(&text.out.stdout).to_string(), &sig),
    };
    let show = || String::from_utf8_lossy(&text.out.stdout).lines().take(40).collect::<Vec<_>>().join("\n");

    // (1) counts in header vs body
    let n_files: u64 = rep.groups.iter().map(|g| g.files.len() as u64).sum();
    let n_bytes: u64 = rep.groups.iter().map(|g| g.len * g.files.len() as u64).sum();
    if stats.group_count != rep.groups.len() as u64 || stats.total_file_count != n_files || stats.total_file_size != n_bytes {
        return mk_fail("header-totals", &text.cmdline, format!("header {:?} vs body groups={} files={} bytes={}\n{}", stats, rep.groups.len(), n_files, n_bytes, show()), &sig);
    }
    for g in &rep.groups {
        if g.count != Some(g.files.len()) {
            return mk_fail("group-count", &text.cmdline, format!("group header says {:?}, {} paths listed\n{}", g.count, g.files.len(), show()), &sig);
        }
        for f in &g.files {
            if f.first() != Some(&b'/') {
                return mk_fail("relative-path", &text.cmdline, format!("{:?}", B(f.clone())), &sig);
            }
        }
    }
    // (3) decreasing size
    for w in rep.groups.windows(2) {
        if w[0].len < w[1].len {
            return mk_fail("group-order", &text.cmdline, show(), &sig);
        }
    }
    // (2) redundant / missing by the replication filter
    let canon_roots: Vec<PathBuf> = if c.opts.isolate {
        roots.iter().map(|r| tree.join(r)).map(|p| std::fs::canonicalize(&p).unwrap_or(p.clone())).collect()
    } else {
        vec![]
    };
    let mut exp_red = 0u64;
    let mut exp_red_b = 0u64;
    let mut exp_miss = 0u64;
    let mut exp_miss_b = 0u64;
    let mut has_link_set = false;
    let mut spans_roots = false;
    for g in &rep.groups {
        let sgs = sub_groups(&g.files, &canon_roots, !c.opts.match_links);
        if sgs.iter().any(|s| s.len() >= 2) && !c.opts.isolate {
            has_link_set = true;
        }
        if c.opts.isolate && sgs.len() >= 2 {
            spans_roots = true;
        }
        match c.opts.rf {
            RfOpt::Under(k) => {
                let m = (k as u64).saturating_sub(sgs.len() as u64);
                exp_miss += m;
                exp_miss_b += m * g.len;
            }
            RfOpt::Unique => {
                let m = 2u64.saturating_sub(sgs.len() as u64);
                exp_miss += m;
                exp_miss_b += m * g.len;
            }
            RfOpt::Default | RfOpt::Over(_) => {
                let rf = match c.opts.rf {
                    RfOpt::Over(k) => k.max(1),
                    _ => 1,
                };
                let r: u64 = sgs.iter().skip(rf).map(|s| s.len() as u64).sum();
                exp_red += r;
                exp_red_b += r * g.len;
            }
        }
        // (5) isolate roots contiguous and in argument order
        if c.opts.isolate {
            let seq: Vec<usize> = g
                .files
                .iter()
                .map(|f| canon_roots.iter().position(|r| bytes_path(f).starts_with(r)).unwrap_or(usize::MAX))
                .collect();
            if seq.windows(2).any(|w| w[0] > w[1]) {
                return mk_fail("isolate-root-order", &text.cmdline, format!("root index sequence {:?}\n{}", seq, show()), &sig);
            }
        }
    }
    if stats.redundant_file_count != exp_red || stats.redundant_file_size != exp_red_b {
        let mut s = sig.clone();
        if has_link_set {
            s.push("hard-link-set-in-group".into());
        }
        return mk_fail(
            "header-redundant",
            &text.cmdline,
            format!("header says redundant {} files / {} B; by the replication rule {} files / {} B\n{}", stats.redundant_file_count, stats.redundant_file_size, exp_red, exp_red_b, show()),
            &s,
        );
    }
    if stats.missing_file_count != exp_miss || stats.missing_file_size != exp_miss_b {
        return mk_fail(
            "header-missing",
            &text.cmdline,
            format!("header says missing {} files / {} B; by the replication rule {} / {}\n{}", stats.missing_file_count, stats.missing_file_size, exp_miss, exp_miss_b, show()),
            &sig,
        );
    }

    // (7) the four formats describe the same groups
    let json = run_fmt("json", &[]);
    let jrep = match parse_json(&json.out.stdout) {
        Ok(r) => r,
        Err(e) => return mk_fail("json-unparsable", &json.cmdline, format!("{} {}", e, json.out.brief()), &sig),
    };
    let strip = |gs: &Vec<RGroup>| gs.iter().map(|g| (g.len, g.hash.clone(), g.files.clone())).collect::<Vec<_>>();
    if strip(&jrep.groups) != strip(&rep.groups) {
        return mk_fail("formats-disagree-json", &json.cmdline, format!("text: {:?}\njson: {:?}", strip(&rep.groups).iter().map(|g| (g.0, &g.1, g.2.len())).collect::<Vec<_>>(), strip(&jrep.groups).iter().map(|g| (g.0, &g.1, g.2.len())).collect::<Vec<_>>()), &sig);
    }
    if jrep.header.as_ref().and_then(|h| h.stats.clone()) != Some(stats.clone()) {
        return mk_fail("formats-disagree-json-stats", &json.cmdline, format!("{:?} vs {:?}", jrep.header.as_ref().and_then(|h| h.stats.clone()), stats), &sig);
    }
    let csv = run_fmt("csv", &[]);
    match parse_csv(&csv.out.stdout) {
        Ok(gs) => {
            if strip(&gs) != strip(&rep.groups) || gs.iter().any(|g| g.count != Some(g.files.len())) {
                return mk_fail("formats-disagree-csv", &csv.cmdline, String::from_utf8_lossy(&csv.out.stdout).chars().take(1500).collect(), &sig);
            }
        }
        Err(e) => return mk_fail("csv-unparsable", &csv.cmdline, format!("{} {}", e, csv.out.brief()), &sig),
    }
    let fd = run_fmt("fdupes", &[]);
    match parse_fdupes(&fd.out.stdout) {
        Ok(gs) => {
            let want: Vec<Vec<Vec<u8>>> = rep.groups.iter().map(|g| g.files.clone()).collect();
            if gs != want {
                return mk_fail("formats-disagree-fdupes", &fd.cmdline, String::from_utf8_lossy(&fd.out.stdout).chars().take(1500).collect(), &sig);
            }
        }
        Err(e) => return mk_fail("fdupes-unparsable", &fd.cmdline, format!("{} {}", e, fd.out.brief()), &sig),
    }
    // (8) -o file equals stdout
    let outfile = cd.out().join("report.txt");
    if c.prefill_output {
        // an older, longer report is already there: it must be replaced, not overwritten in place
        let mut old = text.out.stdout.clone();
        old.extend_from_slice(b"0123456789abcdef0123456789abcdef, 1 B (1 B) * 2:\n    /stale/path/one\n    /stale/path/two\n");
        old.extend(std::iter::repeat(b'#').take(3000));
        let _ = std::fs::write(&outfile, &old);
    }
    let of = run_fmt("default", &[OsString::from("-o"), outfile.clone().into_os_string()]);
    let written = std::fs::read(&outfile).unwrap_or_default();
    // the command line differs (-o …), everything else must match
    if !of.out.ok() || text_body(&written) != text_body(&text.out.stdout) {
        return mk_fail("output-file-differs", &of.cmdline, format!("{}\nfile:\n{}\nstdout:\n{}", of.out.brief(), String::from_utf8_lossy(&written).chars().take(800).collect::<String>(), show()), &sig);
    }
    if !of.out.stdout.is_empty() {
        return mk_fail("output-file-differs", &of.cmdline, "report also written to stdout".into(), &sig);
    }

    // (9) the listing depends only on the set of paths: swap the inodes behind the two names that
    // differ only in invalid UTF-8 bytes (contents and path set unchanged) and run again
    if let Some((a, b)) = &inv_pair {
        let tmp = a.with_file_name("inv-swap.tmp");
        if std::fs::rename(a, &tmp).is_ok() && std::fs::rename(b, a).is_ok() && std::fs::rename(&tmp, b).is_ok() {
            let again = run_fmt("default", &[]);
            if again.out.ok() && text_body(&again.out.stdout) != text_body(&text.out.stdout) {
                return mk_fail(
                    "listing-depends-on-more-than-the-path-set",
                    &again.cmdline,
                    format!("after swapping the inodes behind {:?} and {:?} (same paths, same bytes) the report body changed\nbefore:\n{}\nafter:\n{}", a, b, show(), String::from_utf8_lossy(&again.out.stdout).lines().take(40).collect::<Vec<_>>().join("\n")),
                    &sig,
                );
            }
        }
    }
    // (10) -o FILE with stdout on a terminal: the file is still a plain report
    if c.tty && std::path::Path::new("/usr/bin/script").exists() {
        let outfile = cd.out().join("report.tty.txt");
        let mut inner = Run::fclones(&cd).arg("group").args(c.opts.args()).arg("-o").arg(&outfile).args(&roots);
        let words: Vec<String> = std::iter::once(FCLONES_BIN.to_string()).chain(inner.args.iter().map(|a| fclones::verif::quote(a.clone()))).collect();
        inner.program = OsString::from("/usr/bin/script");
        inner.args = vec!["-qec".into(), words.join(" ").into(), "/dev/null".into()];
        if let Some(d) = c.opts.disk_env() {
            inner = inner.env("FCLONES_VERIF_DISK_KIND", d);
        }
        // (`script` hands the command line to $SHELL -c; the $'..' quoting style needs bash, not dash)
        let o = inner.env("TERM", "xterm").env("SHELL", "/bin/bash").run();
        let written = std::fs::read(&outfile).unwrap_or_default();
        if !o.timed_out && (parse_text(&written).is_err() || text_body(&written) != text_body(&text.out.stdout)) {
            return mk_fail(
                "output-file-differs-on-a-terminal",
                &format!("script -qec '{}' /dev/null", words.join(" ")),
                format!("file:\n{}\nexpected body:\n{}", String::from_utf8_lossy(&written).chars().take(800).collect::<String>(), show()),
                &sig,
            );
        }
    }
    let lens: BTreeMap<u64, usize> = rep.groups.iter().fold(BTreeMap::new(), |mut m, g| {
        *m.entry(g.len).or_insert(0) += 1;
        m
    });
    let nontrivial = lens.len() >= 2 && (has_link_set || spans_roots);
    let mut classes = sig.clone();
    classes.push(format!("rf-{:?}", c.opts.rf).to_lowercase());
    if has_link_set {
        classes.push("group-with-hard-link-set".into());
    }
    Verdict::Pass { nontrivial, classes }
}

pub fn check(tier: Tier) -> i32 {
    let ctx = Ctx::new("C14", tier);
    replay_corpus::<C14Case, _>(&ctx, run_case);
    drive(&ctx, "main", tier.pick(2000, 25000), case_strategy, run_case);
    cleanup_process_scratch();
    ctx.finish(
        "exploration",
        "proptest-generated trees (hostile file names, hard-link sets, 1-3 roots) x configurations (--isolate, -H, -S, transform, --unique, --rf-under, --rf-over); each case runs group in text, JSON, CSV, fdupes and with -o; oracle: header totals == body, per-group count == listed paths, redundant/missing recomputed from the listed groups by the reference sub-grouping (isolate roots in order, else file id, else singletons; first max(rf,1) sub-groups retained), decreasing sizes, absolute paths, isolate roots contiguous in argument order, all formats decode (harness parsers) to the same groups in the same order, -o file == stdout (in half of the cases the -o file exists already and holds a longer, older report). Roots are given in sorted and in non-sorted order, in 30 % of the cases with a sub-directory of the first root as an additional root in front of it (nested roots). Two extra copies whose names differ only in invalid UTF-8 bytes are added; after swapping the inodes behind those two names the body must be unchanged. In a quarter of the cases the -o run is repeated with stdout on a pseudo-terminal (util-linux `script`): the file must still be the plain report. Non-trivial = >=2 groups of different length and a group containing a hard-link set or spanning >=2 isolate roots.",
        &["harness parsers implement the documented writer format (4-space indent, STFU-8 escapes, RFC 4180 CSV)"],
    )
}

pub fn replay(file: &std::path::Path) -> i32 {
    replay_one::<C14Case, _>("C14", file, run_case)
}
