//! C13 Results are deterministic and independent of performance settings; every run terminates.

use crate::common::*;
use crate::grp::*;
use crate::report::*;
use crate::run::*;
use crate::tree::*;
use proptest::prelude::*;
use serde::{Deserialize, Serialize};
use std::ffi::OsString;

#[derive(Clone, Debug, Serialize, Deserialize)]
pub struct C13Case {
    pub tree: TreeSpec,
    pub roots: usize,
    pub base: GOpts,
    /// thread-pool variants (each a list of --threads specs)
    pub thread_variants: Vec<Vec<String>>,
    /// permutation seeds for root order
    pub perms: Vec<u16>,
    /// tuning variants: (hash_fn, max_prefix, max_suffix, disk, cache)
    pub tunings: Vec<(u8, Option<u64>, Option<u64>, u8, bool)>,
    pub repeats: u8,
    pub ext4: bool,
}

const POOLSETS: [&[&str]; 12] = [
    &["1"],
    &["0"],
    &["main:1", "default:1,1"],
    &["main:1", "ssd:1,1", "hdd:1,1", "unknown:1,1", "removable:1,1"],
    &["main:64", "ssd:64", "hdd:64", "unknown:64"],
    &["default:1"],
    &["main:1"],
    &["ssd:1,1", "hdd:1,1", "unknown:1,1"],
    &["default:64,1"],
    &["2"],
    &["main:2", "default:3,2"],
    &["main:0", "default:0"],
];

fn case_strategy(tier: Tier) -> BoxedStrategy<C13Case> {
    let big = tier.pick((20usize, 90usize), (20, 150));
    (1usize..=3)
        .prop_flat_map(move |roots| {
            let mut p = Profile::plain();
            p.roots = roots;
            p.files = big;
            p.max_size = 70000;
            p.hardlinks = 1;
            p.near_dup_pairs = 2;
            p.classes = 3;
            let op = OptProfile { transform_w: 0.0001, cache_w: 0.0001, links: false, isolate: false, rf: true, max_roots: roots };
            let tv = proptest::collection::vec(
                (0u16..u16::MAX).prop_map(|i| {
                    POOLSETS[crate::util::pick(i, POOLSETS.len())].iter().map(|s| s.to_string()).collect::<Vec<_>>()
                }),
                3..6,
            );
            let knob = || prop::option::weighted(0.5, (0u16..u16::MAX).prop_map(|i| SIZE_KNOBS[crate::util::pick(i, SIZE_KNOBS.len())]));
            let tun = proptest::collection::vec((0u8..7, knob(), knob(), 0u8..4, prop::bool::weighted(0.3)), 3..5);
            (tree_strategy(&p), gopts_strategy(op), tv, proptest::collection::vec(0u16..u16::MAX, 2), tun, prop::bool::weighted(0.1))
                .prop_map(move |(tree, mut base, mut thread_variants, perms, tunings, ext4)| {
                    base.transform = None;
                    base.cache = false;
                    base.threads = vec![];
                    // always include the all-size-1 pools and the largest pools
                    thread_variants.push(POOLSETS[3].iter().map(|s| s.to_string()).collect());
                    thread_variants.push(POOLSETS[4].iter().map(|s| s.to_string()).collect());
                    C13Case { tree, roots, base, thread_variants, perms, tunings, repeats: 2, ext4 }
                })
        })
        .boxed()
}

fn permute<T: Clone>(v: &[T], seed: u16) -> Vec<T> {
    let mut idx: Vec<usize> = (0..v.len()).collect();
    let mut s = crate::util::SplitMix(seed as u64 + 17);
    for i in (1..idx.len()).rev() {
        let j = (s.next() % (i as u64 + 1)) as usize;
        idx.swap(i, j);
    }
    idx.into_iter().map(|i| v[i].clone()).collect()
}

pub fn run_case(c: &C13Case, n: u64) -> Verdict {
    let cd = CaseDir::new("c13", n, if c.ext4 { Fs::Ext4 } else { Fs::Tmpfs });
    let built = c.tree.build(&cd.tree());
    let nfiles = built.entries.iter().filter(|e| !matches!(e.kind, BuiltKind::Dir)).count();
    let roots = root_args(c.roots);
    let check_term = |r: &GroupRun| -> Option<Verdict> {
        if r.out.timed_out {
            if r.out.deadlocked {
                return Some(Verdict::Fail {
                    clause: "does-not-terminate".into(),
                    detail: format!("{}\nno system call, no voluntary context switch and no child process during the 5 s observation window after the watchdog expired", r.cmdline),
                    sig: vec!["no-shrink".into()],
                });
            }
            return Some(Verdict::Inconclusive(format!("slow run: {}", r.cmdline)));
        }
        if r.out.crashed() {
            return Some(Verdict::Fail { clause: "crash".into(), detail: format!("{}\n{}", r.cmdline, r.out.brief()), sig: vec![] });
        }
        if !r.out.ok() {
            if let Some(x) = clean_rejection(&r.out) {
                return Some(Verdict::Discard(format!("rejected:{}", x)));
            }
            return Some(Verdict::Fail { clause: "error-exit".into(), detail: format!("{}\n{}", r.cmdline, r.out.brief()), sig: vec![] });
        }
        None
    };
    // reference run
    let r0 = run_group(&cd, &c.base, &roots, "default", &[]);
    if let Some(v) = check_term(&r0) {
        return v;
    }
    let body0 = text_body(&r0.out.stdout);
    let rep0 = match &r0.report {
        Ok(r) => r.clone(),
        Err(e) => return Verdict::fail("unparsable-report", format!("{}\n{}", r0.cmdline, e)),
    };
    let differs = |what: &str, r: &GroupRun| -> Verdict {
        let b = text_body(&r.out.stdout);
        let a = String::from_utf8_lossy(&body0).to_string();
        let b = String::from_utf8_lossy(&b).to_string();
        let first_diff = a.lines().zip(b.lines()).position(|(x, y)| x != y).unwrap_or(a.lines().count().min(b.lines().count()));
        Verdict::Fail {
            clause: format!("body-differs-{}", what),
            detail: format!(
                "reference: {}\nvariant:   {}\nfirst differing line {}:\n  ref: {:?}\n  var: {:?}",
                r0.cmdline,
                r.cmdline,
                first_diff,
                a.lines().nth(first_diff),
                b.lines().nth(first_diff)
            ),
            sig: vec![what.to_string()],
        }
    };
    let mut variants = 0;
    let mut size1 = false;
    // repetitions
    for _ in 0..c.repeats {
        let r = run_group(&cd, &c.base, &roots, "default", &[]);
        if let Some(v) = check_term(&r) {
            return v;
        }
        variants += 1;
        if text_body(&r.out.stdout) != body0 {
            return differs("repeat", &r);
        }
    }
    // thread pools
    for tv in &c.thread_variants {
        let mut o = c.base.clone();
        o.threads = tv.clone();
        if tv.iter().any(|s| s.ends_with(":1") || s.ends_with(":1,1") || s == "1") {
            size1 = true;
        }
        let r = run_group(&cd, &o, &roots, "default", &[]);
        if let Some(v) = check_term(&r) {
            return v;
        }
        variants += 1;
        if text_body(&r.out.stdout) != body0 {
            return differs("threads", &r);
        }
    }
    // root permutations
    for p in &c.perms {
        let pr = permute(&roots, *p);
        let r = run_group(&cd, &c.base, &pr, "default", &[]);
        if let Some(v) = check_term(&r) {
            return v;
        }
        variants += 1;
        if text_body(&r.out.stdout) != body0 {
            return differs("root-order", &r);
        }
    }
    // --stdin
    {
        let mut run = Run::fclones(&cd).arg("group").args(c.base.args()).arg("--stdin");
        if let Some(d) = c.base.disk_env() {
            run = run.env("FCLONES_VERIF_DISK_KIND", d);
        }
        let input: Vec<u8> = roots.iter().flat_map(|r| [crate::run::os_bytes(r), b"\n".to_vec()].concat()).collect();
        let cmdline = format!("{} < roots", run.cmdline());
        let out = run.stdin(input).run();
        let gr = GroupRun { report: parse_text(&out.stdout), out, cmdline };
        if let Some(v) = check_term(&gr) {
            return v;
        }
        variants += 1;
        if text_body(&gr.out.stdout) != body0 {
            return differs("stdin", &gr);
        }
    }
    // schedule perturbation: the interposer yields / sleeps 0-1.5 ms at pseudo-randomly chosen libc calls
    // on tree files (seeded by the case), under the default pools and under small pools
    if std::path::Path::new(SHIM).exists() {
        for (ji, pools) in [(0usize, vec![]), (1, vec!["main:2", "default:3,2"]), (2, vec!["main:1", "default:1,1"])] {
            let mut o = c.base.clone();
            o.threads = pools.iter().map(|s| s.to_string()).collect();
            let mut run = Run::fclones(&cd).arg("group").args(o.args()).args(&roots);
            if let Some(d) = o.disk_env() {
                run = run.env("FCLONES_VERIF_DISK_KIND", d);
            }
            let seed = c.perms.get(ji % c.perms.len().max(1)).copied().unwrap_or(7) as u64 + 1 + ji as u64;
            run = run.env("LD_PRELOAD", SHIM).env("FCV_ROOT", cd.tree()).env("FCV_JITTER", seed.to_string());
            let cmdline = format!("FCV_JITTER={} {}", seed, run.cmdline());
            let out = run.run();
            let gr = GroupRun { report: parse_text(&out.stdout), out, cmdline };
            if let Some(v) = check_term(&gr) {
                return v;
            }
            variants += 1;
            if text_body(&gr.out.stdout) != body0 {
                return differs("schedule-jitter", &gr);
            }
        }
    }
    // a small descriptor budget with the largest pools: the open-file semaphore must keep the run
    // within RLIMIT_NOFILE (80 here) while 128-thread pools hold files open under schedule perturbation
    if std::path::Path::new(SHIM).exists() && std::path::Path::new("/usr/bin/prlimit").exists() {
        let mut o = c.base.clone();
        // 128-thread pools against 80 descriptors (75 permits): only the semaphore keeps the run within the limit
        o.threads = vec!["128".to_string()];
        let mut a: Vec<OsString> = vec!["--nofile=80:80".into(), FCLONES_BIN.into(), "group".into()];
        a.extend(o.args());
        a.extend(roots.iter().cloned());
        let mut run = Run::program(&cd, "/usr/bin/prlimit").args(&a);
        if let Some(d) = o.disk_env() {
            run = run.env("FCLONES_VERIF_DISK_KIND", d);
        }
        let seed = c.perms.first().copied().unwrap_or(3) as u64 + 11;
        run = run.env("LD_PRELOAD", SHIM).env("FCV_ROOT", cd.tree()).env("FCV_JITTER", seed.to_string());
        let cmdline = format!("FCV_JITTER={} prlimit --nofile=80:80 {}", seed, run.cmdline());
        let out = run.run();
        let gr = GroupRun { report: parse_text(&out.stdout), out, cmdline };
        if let Some(v) = check_term(&gr) {
            return v;
        }
        variants += 1;
        if text_body(&gr.out.stdout) != body0 {
            return differs("low-descriptor-limit", &gr);
        }
    }
    // tuning knobs: partition must be the same
    for (h, mp, ms, disk, cache) in &c.tunings {
        let mut o = c.base.clone();
        o.hash_fn = *h;
        o.max_prefix = *mp;
        o.max_suffix = *ms;
        o.disk = *disk;
        o.cache = *cache;
        let r = run_group(&cd, &o, &roots, "default", &[]);
        if let Some(v) = check_term(&r) {
            return v;
        }
        variants += 1;
        match &r.report {
            Ok(rep) => {
                if rep.path_sets() != rep0.path_sets() {
                    return Verdict::Fail {
                        clause: "partition-differs-tuning".into(),
                        detail: format!(
                            "reference: {}\n  {}\nvariant: {}\n  {}",
                            r0.cmdline,
                            describe_groups(&rep0.path_sets()),
                            r.cmdline,
                            describe_groups(&rep.path_sets())
                        ),
                        sig: vec!["tuning".into()],
                    };
                }
                // same listing order of groups (by length) and of paths is required by the first sentence
                // only for fixed options; across hash functions the group order may differ for equal lengths.
            }
            Err(e) => return Verdict::fail("unparsable-report", format!("{}\n{}", r.cmdline, e)),
        }
    }
    let nontrivial = rep0.groups.len() >= 3 && nfiles >= 40 && size1;
    Verdict::Pass { nontrivial, classes: vec![format!("variants-{}", variants)] }
}

/// Second case type: order independence of the *walk*. Small trees with file and directory
/// symlinks (relative, absolute, dangling, cyclic), hidden names and nesting, scanned with
/// overlapping / repeated roots under -L / -S / --depth / -H; `--rf-over 0` lists every selected
/// file, so a file lost or duplicated because of the order in which roots or directories are
/// visited shows up as a different report body.
#[derive(Clone, Debug, Serialize, Deserialize)]
pub struct C13Walk {
    pub walk_tree: TreeSpec,
    pub nroots: usize,
    pub extra_roots: Vec<u16>,
    pub depth: Option<usize>,
    pub follow: bool,
    pub symbolic: bool,
    pub hidden: bool,
    pub match_links: bool,
    pub perms: Vec<u16>,
}

fn walk_strategy() -> BoxedStrategy<C13Walk> {
    (1usize..=2)
        .prop_flat_map(|nroots| {
            (
                crate::props::c09::tree_s(nroots, false),
                proptest::collection::vec(0u16..u16::MAX, 1..4),
                prop::option::weighted(0.6, 1usize..5),
                prop::bool::weighted(0.7),
                prop::bool::weighted(0.3),
                prop::bool::weighted(0.3),
                prop::bool::weighted(0.3),
                proptest::collection::vec(0u16..u16::MAX, 3),
            )
                .prop_map(move |(walk_tree, extra_roots, depth, follow, symbolic, hidden, match_links, perms)| C13Walk {
                    walk_tree,
                    nroots,
                    extra_roots,
                    depth,
                    follow,
                    symbolic,
                    hidden,
                    match_links,
                    perms,
                })
        })
        .boxed()
}

pub fn run_walk(c: &C13Walk, n: u64) -> Verdict {
    let cd = CaseDir::new("c13w", n, Fs::Tmpfs);
    let tree = cd.tree();
    let built = c.walk_tree.build(&tree);
    let dirs: Vec<std::path::PathBuf> = built.entries.iter().filter(|e| e.kind == BuiltKind::Dir).map(|e| e.abs.clone()).collect();
    let mut roots: Vec<OsString> = root_paths(&tree, c.nroots).into_iter().map(|p| p.into_os_string()).collect();
    // the first extra root is, when possible, the directory holding a symlink (so that the link is
    // reached at two different levels), the others are arbitrary directories
    let link_parents: Vec<std::path::PathBuf> =
        built.entries.iter().filter(|e| e.kind == BuiltKind::Symlink).filter_map(|e| e.abs.parent().map(|p| p.to_path_buf())).filter(|p| *p != tree).collect();
    for (i, s) in c.extra_roots.iter().enumerate() {
        if i == 0 && !link_parents.is_empty() {
            roots.push(link_parents[crate::util::pick(*s, link_parents.len())].clone().into_os_string());
        } else if !dirs.is_empty() {
            roots.push(dirs[crate::util::pick(*s, dirs.len())].clone().into_os_string());
        }
    }
    let mut base: Vec<OsString> = vec!["--rf-over".into(), "0".into()];
    if let Some(d) = c.depth {
        base.push("--depth".into());
        base.push(d.to_string().into());
    }
    if c.follow {
        base.push("-L".into());
    }
    if c.symbolic {
        base.push("-S".into());
    }
    if c.hidden {
        base.push("--hidden".into());
    }
    if c.match_links {
        base.push("-H".into());
    }
    let run = |roots: &[OsString], threads: Option<&str>, stdin: bool| -> (Out, String) {
        let mut r = Run::fclones(&cd).arg("group").args(&base);
        if let Some(t) = threads {
            r = r.arg("--threads").arg(t);
        }
        if stdin {
            r = r.arg("--stdin");
            let input: Vec<u8> = roots.iter().flat_map(|x| [crate::run::os_bytes(x), b"\n".to_vec()].concat()).collect();
            let cmd = format!("printf '%s\\n' {} | {}", roots.iter().map(|x| x.to_string_lossy().to_string()).collect::<Vec<_>>().join(" "), r.cmdline());
            (r.stdin(input).run(), cmd)
        } else {
            r = r.args(roots);
            let cmd = r.cmdline();
            (r.run(), cmd)
        }
    };
    let (o0, cmd0) = run(&roots, Some("1"), false);
    if o0.timed_out {
        return Verdict::Inconclusive("timeout".into());
    }
    if o0.crashed() {
        return Verdict::fail("crash", format!("{}\n{}", cmd0, o0.brief()));
    }
    if !o0.ok() {
        return Verdict::Discard("rejected".into());
    }
    let body0 = text_body(&o0.stdout);
    let mut variants: Vec<(Vec<OsString>, Option<&str>, bool)> = vec![];
    for (i, p) in c.perms.iter().enumerate() {
        variants.push((permute(&roots, *p), if i % 2 == 0 { Some("1") } else { None }, false));
    }
    let mut rev = roots.clone();
    rev.reverse();
    variants.push((rev.clone(), Some("1"), false));
    variants.push((rev, None, true));
    variants.push((roots.clone(), Some("main:1"), true));
    for (rs, t, stdin) in &variants {
        let (o, cmd) = run(rs, *t, *stdin);
        if o.timed_out {
            return Verdict::Inconclusive("timeout".into());
        }
        if o.crashed() || !o.ok() {
            return Verdict::fail("variant-fails", format!("{}\n{}", cmd, o.brief()));
        }
        let b = text_body(&o.stdout);
        if b != body0 {
            let a = String::from_utf8_lossy(&body0).to_string();
            let bb = String::from_utf8_lossy(&b).to_string();
            let listing: Vec<String> = built
                .entries
                .iter()
                .map(|e| format!("{}{}", e.abs.strip_prefix(&tree).unwrap_or(&e.abs).display(), match e.kind { BuiltKind::Dir => "/", BuiltKind::Symlink => "@", _ => "" }))
                .collect();
            let mut sig = vec!["walk-order".to_string()];
            if c.follow {
                sig.push("follow-links".into());
            }
            if c.depth.is_some() {
                sig.push("depth".into());
            }
            return Verdict::Fail {
                clause: "body-differs-walk-order".into(),
                detail: format!("reference: {}\nvariant:   {}\nreference body:\n{}\nvariant body:\n{}\ntree: {}", cmd0, cmd, a, bb, listing.join(" ")),
                sig,
            };
        }
    }
    let listed = String::from_utf8_lossy(&body0).lines().filter(|l| l.starts_with("    ")).count();
    let has_dir_link = built.entries.iter().any(|e| e.kind == BuiltKind::Symlink && std::fs::metadata(&e.abs).map(|m| m.is_dir()).unwrap_or(false));
    let mut classes = vec!["walk-order".to_string()];
    if c.follow {
        classes.push("walk-follow-links".into());
    }
    if c.depth.is_some() {
        classes.push("walk-depth".into());
    }
    if has_dir_link {
        classes.push("walk-directory-symlink".into());
    }
    Verdict::Pass { nontrivial: listed >= 2 && roots.len() >= 2 && (c.follow || c.depth.is_some()), classes }
}

pub fn check(tier: Tier) -> i32 {
    let ctx = Ctx::new("C13", tier);
    // normal runs take ~20 ms; 25 s is three orders of magnitude above that
    crate::run::DEFAULT_TIMEOUT_S.store(25, std::sync::atomic::Ordering::Relaxed);
    replay_corpus::<C13Case, _>(&ctx, run_case);
    drive(&ctx, "main", tier.pick(480, 4000), || case_strategy(tier), run_case);
    replay_corpus::<C13Walk, _>(&ctx, run_walk);
    drive(&ctx, "walk-order", tier.pick(3000, 30000), walk_strategy, run_walk);
    cleanup_process_scratch();
    ctx.finish(
        "exploration",
        "proptest-generated trees of 20-90 (quick) / 20-150 (thorough) files incl. hard links and near-duplicates x fixed selection options; metamorphic oracle: the report body (everything but the timestamp/command/version lines) is byte-identical across 2 repetitions, 5-7 thread-pool specifications (always incl. all pools of size 1 and of size 64), 2 permutations of the roots, --stdin and 3 runs under schedule perturbation (the LD_PRELOAD interposer yields or sleeps 0-1.5 ms at pseudo-randomly chosen libc calls on tree files; default, small and size-1 pools) and one run with 128-thread pools under `prlimit --nofile=80` with perturbation; the partition (set of path-sets with lengths) is identical across 3-4 tunings (hash fn, max-prefix/suffix, pinned device, cache); every run must exit; a run exceeding the 60 s watchdog is a violation only if all its threads are asleep without CPU progress. Non-trivial = >=3 groups, >=40 files and a size-1 pool among the variants. Second generator (walk order): small trees with file/directory symlinks (relative, absolute, dangling, cyclic), hidden names, nesting 0-4, scanned with overlapping and repeated roots under -L / -S / --depth / --hidden / -H and --rf-over 0 (every selected file is listed); the body must be identical for 3 permutations of the roots, their reversal, --threads 1 / main:1 / default pools and --stdin; non-trivial there = >=2 listed files, >=2 roots and -L or --depth.",
        &["hangs are observed only under schedules the OS happens to produce", "no transform in this check (C01/C03 cover it)"],
    )
}

pub fn replay(file: &std::path::Path) -> i32 {
    if load_case::<C13Walk>(file).is_some() {
        return replay_one::<C13Walk, _>("C13", file, run_walk);
    }
    replay_one::<C13Case, _>("C13", file, run_case)
}

#[allow(dead_code)]
fn _unused(_: OsString) {}
