// Produces a shuttle-instrumented copy of fclones' semaphore.rs for the C19 check:
// the std synchronisation primitives are swapped for shuttle's, the unit tests are cut off.
use std::path::Path;

fn main() {
    let src_path = "/repo/fclones/src/semaphore.rs";
    println!("cargo:rerun-if-changed={}", src_path);
    let src = std::fs::read_to_string(src_path).expect("cannot read semaphore.rs");
    let import = "use std::sync::{Arc, Condvar, Mutex};";
    if !src.contains(import) {
        panic!("semaphore.rs does not contain the expected import line `{}`; the instrumentation must be adapted", import);
    }
    // every std::sync item (also atomics a later version may introduce) becomes shuttle's, so that each
    // access is a scheduling point
    let mut out = src.replace("std::sync::", "shuttle::sync::");
    if let Some(i) = out.find("#[cfg(test)]") {
        out.truncate(i);
    }
    // inner attributes are not allowed in an included file
    let out: String = out.lines().filter(|l| !l.trim_start().starts_with("#![")).map(|l| format!("{}\n", l)).collect();
    // white-box probes are generated only when the private representation is the one they were written
    // for; after a refactoring of the internals the check falls back to black-box observation
    let mut out = out;
    if src.contains("lock: Mutex<isize>") {
        out.push_str("pub fn verif_count(s: &Semaphore) -> Option<isize> { Some(*s.lock.lock().unwrap()) }\n");
    } else {
        out.push_str("pub fn verif_count(_s: &Semaphore) -> Option<isize> { None }\n");
    }
    if src.contains("cvar: Condvar") {
        out.push_str("pub fn verif_notify(s: &Semaphore, all: bool) { if all { s.cvar.notify_all() } else { s.cvar.notify_one() } }\n");
    } else {
        out.push_str("pub fn verif_notify(_s: &Semaphore, _all: bool) {}\n");
    }
    let dest = Path::new(&std::env::var("OUT_DIR").unwrap()).join("semaphore_shuttle.rs");
    std::fs::write(dest, out).unwrap();
}
