/*
 * fcv_shim.c - LD_PRELOAD interposer used by the fclones verification harness.
 *
 * Configuration (environment):
 *   FCV_ROOT   path prefix; only calls on paths (or fds opened on paths) below it are "relevant"
 *   FCV_LOG    file to append one line per relevant call to
 *   FCV_FAULT  ';'-separated rules, each either
 *                 K:ERRNO                          the K-th relevant mutating call fails with ERRNO
 *                 fn=NAME,path=P,n=N,errno=E       the N-th call of function NAME on path P fails
 *              a failing call is NOT executed
 *   FCV_KILL   K:before | K:after    _exit(137) just before / after the K-th relevant mutating call
 *   FCV_PAUSE  CLASS:K:FIFO_OUT:FIFO_IN   at the K-th relevant call of CLASS (R|M|O = open for read)
 *              write one byte to FIFO_OUT and block until a byte arrives on FIFO_IN
 *   FCV_SHORT_READ=N      every read() of a relevant file returns at most N, N+1000 or N+2000 bytes (by call number):
 *                         legal short reads before EOF, as on FUSE / network file systems or after a signal
 *   FCV_READ_DELAY_US=N   every read() of a relevant file sleeps N microseconds first (the file stays open meanwhile)
 *   FCV_DTYPE_UNKNOWN=1   readdir reports every entry of a relevant directory with d_type = DT_UNKNOWN, as file
 *              systems without the filetype feature do (the caller then has to lstat each entry)
 *   FCV_LOCK_CONFLICT_ENOLCK=1  a record-lock request that fails because of a conflicting lock reports ENOLCK
 *                         ("no locks available", as a lock manager in trouble does) instead of EAGAIN / EACCES
 *   FCV_NOLOCK_DIR=DIR   fcntl record locks (F_SETLK, F_SETLKW, F_OFD_SETLK) on files below DIR fail with
 *              EOPNOTSUPP, like on a file system without lock support
 *   FCV_NOATIME_EPERM=1   every open of a relevant file with O_NOATIME fails with EPERM, as it does for a
 *              user who is neither the owner of the file nor privileged (the file itself stays readable)
 *   FCV_JITTER=SEED   schedule perturbation: at every relevant call a pseudo-random function of (SEED, call
 *              sequence number, thread id) decides to yield the CPU or to sleep 0-1500 us first
 *   FCV_FICLONE_EMULATE=1   answer ioctl(FICLONE) by copying the source bytes over the destination
 */
#define _GNU_SOURCE
#include <dirent.h>
#include <dlfcn.h>
#include <errno.h>
#include <fcntl.h>
#include <pthread.h>
#include <sched.h>
#include <time.h>
#include <stdarg.h>
#include <stdatomic.h>
#include <stdio.h>
#include <stdlib.h>
#include <string.h>
#include <sys/ioctl.h>
#include <sys/sendfile.h>
#include <sys/stat.h>
#include <sys/syscall.h>
#include <sys/time.h>
#include <sys/types.h>
#include <sys/uio.h>
#include <unistd.h>

#ifndef FICLONE
#define FICLONE _IOW(0x94, 9, int)
#endif
#ifndef FS_IOC_FIEMAP
#define FS_IOC_FIEMAP 0xC020660B
#endif

#define MAXFD 8192
#define MAXRULES 8

#define MAXROOTS 4
static char roots[MAXROOTS][4096];
static size_t root_lens[MAXROOTS];
static int nroots = 0;
static int log_fd = -1;
static int ficlone_emulate = 0;
static atomic_long seq = 0;
static atomic_long mut_count = 0;
static atomic_long read_count = 0;
static atomic_long openr_count = 0;
static unsigned long jitter_seed = 0;
static int noatime_eperm = 0;
static int dtype_unknown = 0;
static long read_delay_us = 0;
static long short_read = 0;
static char nolock_dir[4096];
static int conflict_enolck = 0;
static long kill_k = -1;
static int kill_after = 0;
static char pause_class = 0;
static long pause_k = -1;
static char pause_out[4096], pause_in[4096];

struct rule {
    int active;
    long k;          /* k-th mutating call, or -1 */
    char fn[32];     /* function name rule */
    char path[4096];
    long n;
    atomic_long seen;
    int err;
};
static struct rule rules[MAXRULES];
static int nrules = 0;

static char *fdpath[MAXFD];
static pthread_mutex_t fd_mu = PTHREAD_MUTEX_INITIALIZER;
static pthread_mutex_t emu_mu = PTHREAD_MUTEX_INITIALIZER;
static int initialized = 0;

#define REAL(name) static __typeof__(name) *real_##name = NULL; if (!real_##name) real_##name = dlsym(RTLD_NEXT, #name)

static ssize_t raw_write(int fd, const void *b, size_t n) { return syscall(SYS_write, fd, b, n); }

static int errno_of(const char *s) {
    if (!strcmp(s, "EIO")) return EIO;
    if (!strcmp(s, "EACCES")) return EACCES;
    if (!strcmp(s, "ENOENT")) return ENOENT;
    if (!strcmp(s, "ENOSPC")) return ENOSPC;
    if (!strcmp(s, "EXDEV")) return EXDEV;
    if (!strcmp(s, "EPERM")) return EPERM;
    if (!strcmp(s, "EOPNOTSUPP")) return EOPNOTSUPP;
    if (!strcmp(s, "EMFILE")) return EMFILE;
    if (!strcmp(s, "EROFS")) return EROFS;
    if (!strcmp(s, "EEXIST")) return EEXIST;
    if (!strcmp(s, "EINVAL")) return EINVAL;
    if (!strcmp(s, "ENOTDIR")) return ENOTDIR;
    if (!strcmp(s, "EMLINK")) return EMLINK;
    return atoi(s) ? atoi(s) : EIO;
}

static void init(void) {
    if (initialized) return;
    initialized = 1;
    const char *r = getenv("FCV_ROOT");
    if (r && *r) {
        /* ':'-separated list of prefixes */
        char *dupr = strdup(r);
        char *sv = NULL;
        for (char *t = strtok_r(dupr, ":", &sv); t && nroots < MAXROOTS; t = strtok_r(NULL, ":", &sv)) {
            strncpy(roots[nroots], t, sizeof(roots[0]) - 1);
            root_lens[nroots] = strlen(roots[nroots]);
            nroots++;
        }
        free(dupr);
    }
    const char *l = getenv("FCV_LOG");
    if (l && *l) log_fd = syscall(SYS_openat, AT_FDCWD, l, O_WRONLY | O_CREAT | O_APPEND | O_CLOEXEC, 0644);
    const char *e = getenv("FCV_FICLONE_EMULATE");
    ficlone_emulate = e && *e == '1';
    const char *rd = getenv("FCV_READ_DELAY_US");
    if (rd && *rd) read_delay_us = atol(rd);
    const char *sr = getenv("FCV_SHORT_READ");
    if (sr && *sr) short_read = atol(sr);
    const char *du = getenv("FCV_DTYPE_UNKNOWN");
    dtype_unknown = du && *du == '1';
    const char *nl = getenv("FCV_NOLOCK_DIR");
    if (nl && *nl) strncpy(nolock_dir, nl, sizeof(nolock_dir) - 1);
    const char *ce = getenv("FCV_LOCK_CONFLICT_ENOLCK");
    conflict_enolck = ce && *ce == '1';
    const char *na = getenv("FCV_NOATIME_EPERM");
    noatime_eperm = na && *na == '1';
    const char *j = getenv("FCV_JITTER");
    if (j && *j) jitter_seed = strtoul(j, NULL, 10) * 2654435761UL + 1;
    const char *k = getenv("FCV_KILL");
    if (k && *k) {
        kill_k = atol(k);
        kill_after = strstr(k, "after") != NULL;
    }
    const char *p = getenv("FCV_PAUSE");
    if (p && *p) {
        /* CLASS:K:OUT:IN */
        char buf[9000];
        strncpy(buf, p, sizeof(buf) - 1);
        buf[sizeof(buf) - 1] = 0;
        char *s1 = strchr(buf, ':');
        if (s1) {
            pause_class = buf[0];
            char *s2 = strchr(s1 + 1, ':');
            if (s2) {
                *s2 = 0;
                pause_k = atol(s1 + 1);
                char *s3 = strchr(s2 + 1, ':');
                if (s3) {
                    *s3 = 0;
                    strncpy(pause_out, s2 + 1, sizeof(pause_out) - 1);
                    strncpy(pause_in, s3 + 1, sizeof(pause_in) - 1);
                }
            }
        }
    }
    const char *f = getenv("FCV_FAULT");
    if (f && *f) {
        char *dup = strdup(f);
        char *save = NULL;
        for (char *tok = strtok_r(dup, ";", &save); tok && nrules < MAXRULES; tok = strtok_r(NULL, ";", &save)) {
            struct rule *ru = &rules[nrules];
            memset(ru, 0, sizeof(*ru));
            ru->k = -1;
            ru->n = 1;
            ru->err = EIO;
            if (!strncmp(tok, "fn=", 3)) {
                /* fn=NAME,path=P,n=N,errno=E  (path may contain commas only if last... keep it simple: path is between "path=" and ",n=") */
                char *pp = strstr(tok, ",path=");
                char *np = strstr(tok, ",n=");
                char *ep = strstr(tok, ",errno=");
                if (!pp || !np || !ep) continue;
                size_t fl = (size_t)(pp - (tok + 3));
                if (fl >= sizeof(ru->fn)) fl = sizeof(ru->fn) - 1;
                memcpy(ru->fn, tok + 3, fl);
                /* the last ",n=" before ",errno=" terminates the path */
                char *last_n = NULL;
                for (char *q = pp + 6; q < ep; q++)
                    if (!strncmp(q, ",n=", 3)) last_n = q;
                if (!last_n) continue;
                size_t pl = (size_t)(last_n - (pp + 6));
                if (pl >= sizeof(ru->path)) pl = sizeof(ru->path) - 1;
                memcpy(ru->path, pp + 6, pl);
                ru->n = atol(last_n + 3);
                ru->err = errno_of(ep + 7);
            } else {
                char *c = strchr(tok, ':');
                if (!c) continue;
                ru->k = atol(tok);
                ru->err = errno_of(c + 1);
            }
            ru->active = 1;
            nrules++;
        }
        free(dup);
    }
}

__attribute__((constructor)) static void ctor(void) { init(); }

static int relevant(const char *p) {
    if (!p) return 0;
    for (int i = 0; i < nroots; i++) {
        size_t n = root_lens[i];
        if (n && strncmp(p, roots[i], n) == 0 && (p[n] == '/' || p[n] == 0)) return 1;
    }
    return 0;
}

/* Makes `p` absolute (lexically) into out; dirfd-relative paths use the fd table. */
static const char *abspath(int dirfd, const char *p, char *out, size_t n) {
    if (!p) return NULL;
    if (p[0] == '/') return p;
    if (dirfd == AT_FDCWD) {
        char cwd[4096];
        if (syscall(SYS_getcwd, cwd, sizeof(cwd)) < 0) return p;
        snprintf(out, n, "%s/%s", cwd, p);
        return out;
    }
    if (dirfd >= 0 && dirfd < MAXFD) {
        pthread_mutex_lock(&fd_mu);
        const char *d = fdpath[dirfd];
        if (d) snprintf(out, n, "%s/%s", d, p);
        pthread_mutex_unlock(&fd_mu);
        if (d) return out;
    }
    return p;
}

static void fdp_set(int fd, const char *p) {
    if (fd < 0 || fd >= MAXFD) return;
    pthread_mutex_lock(&fd_mu);
    free(fdpath[fd]);
    fdpath[fd] = p ? strdup(p) : NULL;
    pthread_mutex_unlock(&fd_mu);
}

static int fdp_get(int fd, char *out, size_t n) {
    int ok = 0;
    if (fd < 0 || fd >= MAXFD) return 0;
    pthread_mutex_lock(&fd_mu);
    if (fdpath[fd]) {
        strncpy(out, fdpath[fd], n - 1);
        out[n - 1] = 0;
        ok = 1;
    }
    pthread_mutex_unlock(&fd_mu);
    return ok;
}

static void escape(const char *s, char *out, size_t n) {
    size_t o = 0;
    for (; s && *s && o + 5 < n; s++) {
        unsigned char c = (unsigned char)*s;
        if (c == '\\') {
            out[o++] = '\\';
            out[o++] = '\\';
        } else if (c < 0x20 || c == 0x7f || c == ' ' || c >= 0x80) {
            o += snprintf(out + o, n - o, "\\x%02X", c);
        } else
            out[o++] = c;
    }
    out[o] = 0;
}

static void logcall(long s, char cls, const char *fn, const char *p1, const char *p2, long ret, int err, const char *note) {
    if (log_fd < 0) return;
    char e1[9000], e2[9000], line[20000];
    escape(p1 ? p1 : "-", e1, sizeof(e1));
    escape(p2 ? p2 : "-", e2, sizeof(e2));
    int n = snprintf(line, sizeof(line), "%ld %ld %c %s %s %s %ld %d %s\n", s, (long)syscall(SYS_gettid), cls, fn, e1, e2, ret, err, note ? note : "-");
    if (n > 0) raw_write(log_fd, line, (size_t)n);
}

static void do_pause(void) {
    int o = syscall(SYS_openat, AT_FDCWD, pause_out, O_WRONLY | O_CLOEXEC, 0);
    if (o >= 0) {
        raw_write(o, "p", 1);
        syscall(SYS_close, o);
    }
    int i = syscall(SYS_openat, AT_FDCWD, pause_in, O_RDONLY | O_CLOEXEC, 0);
    if (i >= 0) {
        char b;
        while (syscall(SYS_read, i, &b, 1) < 0 && errno == EINTR) {
        }
        syscall(SYS_close, i);
    }
}

/*
 * Called at the start of every relevant call. Returns 0 to proceed, or an errno to inject.
 * *kill_after_out is set when the process must die right after the real call.
 */
static int gate(char cls, const char *fn, const char *path, long *seq_out, int *kill_after_out) {
    long s = atomic_fetch_add(&seq, 1) + 1;
    if (jitter_seed) {
        unsigned long h = jitter_seed ^ ((unsigned long)s * 0x9E3779B97F4A7C15UL) ^ ((unsigned long)syscall(SYS_gettid) << 17);
        h ^= h >> 29;
        h *= 0xBF58476D1CE4E5B9UL;
        h ^= h >> 32;
        if ((h & 7) == 0) {
            struct timespec ts = {0, (long)((h >> 8) % 1500) * 1000};
            nanosleep(&ts, NULL);
        } else if ((h & 7) <= 2) {
            sched_yield();
        }
    }
    *seq_out = s;
    *kill_after_out = 0;
    long mk = -1;
    if (cls == 'M') {
        mk = atomic_fetch_add(&mut_count, 1) + 1;
        if (pause_class == 'M' && mk == pause_k) do_pause();
        if (kill_k == mk) {
            if (!kill_after) {
                logcall(s, cls, fn, path, NULL, -1, 0, "KILLED-BEFORE");
                pthread_mutex_lock(&emu_mu);
                syscall(SYS_exit_group, 137);
            }
            *kill_after_out = 1;
        }
    } else {
        long rk = atomic_fetch_add(&read_count, 1) + 1;
        if (pause_class == 'R' && rk == pause_k) do_pause();
    }
    for (int i = 0; i < nrules; i++) {
        struct rule *ru = &rules[i];
        if (!ru->active) continue;
        if (ru->k >= 0) {
            if (cls == 'M' && ru->k == mk) return ru->err;
        } else if (!strcmp(ru->fn, fn) && path && !strcmp(ru->path, path)) {
            long seen = atomic_fetch_add(&ru->seen, 1) + 1;
            if (seen == ru->n) return ru->err;
        }
    }
    return 0;
}

static void after(int ka, long s, char cls, const char *fn, const char *p1, const char *p2, long ret, int err) {
    logcall(s, cls, fn, p1, p2, ret, ret < 0 ? err : 0, NULL);
    if (ka) {
        logcall(s, cls, fn, p1, p2, ret, err, "KILLED-AFTER");
        pthread_mutex_lock(&emu_mu);
        syscall(SYS_exit_group, 137);
    }
}

/* ---- helpers to define wrappers ------------------------------------------------------------ */

#define PATH1_CALL(cls, fnname, dirfd, path, call, failret)                                   \
    char ab_[8192];                                                                            \
    const char *ap_ = abspath(dirfd, path, ab_, sizeof(ab_));                                  \
    if (!relevant(ap_)) return call;                                                           \
    long s_;                                                                                   \
    int ka_;                                                                                   \
    int inj_ = gate(cls, fnname, ap_, &s_, &ka_);                                              \
    if (inj_) {                                                                                \
        logcall(s_, cls, fnname, ap_, NULL, -1, inj_, "INJECTED");                             \
        errno = inj_;                                                                          \
        return failret;                                                                        \
    }

/* ---- open family -------------------------------------------------------------------------- */

static int is_write_open(int flags) { return (flags & O_ACCMODE) != O_RDONLY || (flags & (O_CREAT | O_TRUNC)); }

static int open_common(const char *fn, int dirfd, const char *path, int flags, mode_t mode, int use64) {
    REAL(openat);
    char ab[8192];
    const char *ap = abspath(dirfd, path, ab, sizeof(ab));
    (void)use64;
    if (!relevant(ap)) {
        int fd0 = real_openat(dirfd, path, flags, mode);
        int e0 = errno;
        if (fd0 >= 0) fdp_set(fd0, NULL);
        errno = e0;
        return fd0;
    }
    int wr = is_write_open(flags);
    char cls = wr ? 'M' : 'R';
    if (noatime_eperm && (flags & O_NOATIME)) {
        long s0 = atomic_fetch_add(&seq, 1) + 1;
        logcall(s0, cls, fn, ap, NULL, -1, EPERM, "NOATIME-EPERM");
        errno = EPERM;
        return -1;
    }
    if (!wr && !(flags & O_DIRECTORY)) {
        long ok = atomic_fetch_add(&openr_count, 1) + 1;
        if (pause_class == 'O' && ok == pause_k) do_pause();
    }
    long s;
    int ka;
    int inj = gate(cls, wr ? "open-w" : "open", ap, &s, &ka);
    if (inj) {
        logcall(s, cls, fn, ap, NULL, -1, inj, "INJECTED");
        errno = inj;
        return -1;
    }
    int fd = real_openat(dirfd, path, flags, mode);
    int e = errno;
    if (fd >= 0) fdp_set(fd, ap);
    after(ka, s, cls, wr ? "open-w" : "open", ap, NULL, fd, e);
    errno = e;
    return fd;
}

int open(const char *path, int flags, ...) {
    mode_t mode = 0;
    if (flags & (O_CREAT | O_TMPFILE)) {
        va_list ap;
        va_start(ap, flags);
        mode = va_arg(ap, mode_t);
        va_end(ap);
    }
    return open_common("open", AT_FDCWD, path, flags, mode, 0);
}
int open64(const char *path, int flags, ...) {
    mode_t mode = 0;
    if (flags & (O_CREAT | O_TMPFILE)) {
        va_list ap;
        va_start(ap, flags);
        mode = va_arg(ap, mode_t);
        va_end(ap);
    }
    return open_common("open", AT_FDCWD, path, flags | O_LARGEFILE, mode, 1);
}
int openat(int dirfd, const char *path, int flags, ...) {
    mode_t mode = 0;
    if (flags & (O_CREAT | O_TMPFILE)) {
        va_list ap;
        va_start(ap, flags);
        mode = va_arg(ap, mode_t);
        va_end(ap);
    }
    return open_common("open", dirfd, path, flags, mode, 0);
}
int openat64(int dirfd, const char *path, int flags, ...) {
    mode_t mode = 0;
    if (flags & (O_CREAT | O_TMPFILE)) {
        va_list ap;
        va_start(ap, flags);
        mode = va_arg(ap, mode_t);
        va_end(ap);
    }
    return open_common("open", dirfd, path, flags | O_LARGEFILE, mode, 1);
}

int close(int fd) {
    REAL(close);
    fdp_set(fd, NULL);
    return real_close(fd);
}

int closedir(DIR *d) {
    REAL(closedir);
    if (d) fdp_set(dirfd(d), NULL);
    return real_closedir(d);
}

int dup2(int oldfd, int newfd) {
    REAL(dup2);
    int r = real_dup2(oldfd, newfd);
    char p[8192];
    if (r >= 0) {
        if (fdp_get(oldfd, p, sizeof(p)))
            fdp_set(r, p);
        else
            fdp_set(r, NULL);
    }
    return r;
}

int dup(int fd) {
    REAL(dup);
    int r = real_dup(fd);
    char p[8192];
    if (r >= 0 && fdp_get(fd, p, sizeof(p))) fdp_set(r, p);
    return r;
}

/* ---- fd based reads and writes ------------------------------------------------------------ */

/* lexical normalisation: "/./" -> "/", "//" -> "/", trailing "/." dropped (".." is left alone) */
static void lexnorm(const char *src, char *dst, size_t n) {
    size_t o = 0;
    for (size_t i = 0; src[i] && o + 1 < n;) {
        if (src[i] == '/') {
            while (src[i + 1] == '/') i++;
            if (src[i + 1] == '.' && (src[i + 2] == '/' || src[i + 2] == 0)) {
                i += 2;
                if (src[i] == 0 && o == 0) dst[o++] = '/';
                continue;
            }
        }
        dst[o++] = src[i++];
    }
    dst[o] = 0;
}

static int fd_still_points_to(int fd, const char *path0) {
    char link[64], cur[8192], path[8192];
    lexnorm(path0, path, sizeof(path));
    snprintf(link, sizeof(link), "/proc/self/fd/%d", fd);
    ssize_t n = syscall(SYS_readlink, link, cur, sizeof(cur) - 1);
    if (n < 0) return 1; /* cannot tell: keep the mapping */
    cur[n] = 0;
    /* a deleted file shows as "<path> (deleted)" */
    size_t pl = strlen(path);
    return strncmp(cur, path, pl) == 0 && (cur[pl] == 0 || !strcmp(cur + pl, " (deleted)"));
}

#define FD_CALL(cls, fnname, fd, call)                                                         \
    char fp_[8192];                                                                            \
    if (!fdp_get(fd, fp_, sizeof(fp_)) || !relevant(fp_)) return call;                          \
    if (cls == 'M' && !fd_still_points_to(fd, fp_)) {                                          \
        fdp_set(fd, NULL);                                                                     \
        return call;                                                                           \
    }                                                                                          \
    long s_;                                                                                   \
    int ka_;                                                                                   \
    int inj_ = gate(cls, fnname, fp_, &s_, &ka_);                                              \
    /* copy_file_range / sendfile report "not possible for this pair of files" (EPERM, EINVAL, EXDEV, \
     * ENOSYS, EOPNOTSUPP) only before any byte was copied - std asserts exactly that -, so in the \
     * middle of a copy such an injected errno becomes EIO */                                      \
    if (inj_ && !strcmp(fnname, "copy") && (inj_ == EPERM || inj_ == EINVAL || inj_ == EXDEV || inj_ == ENOSYS || inj_ == EOPNOTSUPP)) inj_ = EIO; \
    if (inj_) {                                                                                \
        logcall(s_, cls, fnname, fp_, NULL, -1, inj_, "INJECTED");                             \
        errno = inj_;                                                                          \
        return -1;                                                                             \
    }

ssize_t read(int fd, void *buf, size_t n) {
    REAL(read);
    FD_CALL('R', "read", fd, real_read(fd, buf, n));
    if (read_delay_us > 0) {
        struct timespec ts = {read_delay_us / 1000000, (read_delay_us % 1000000) * 1000};
        nanosleep(&ts, NULL);
    }
    if (short_read > 0) {
        size_t cap = (size_t)short_read + (size_t)(s_ % 3) * 1000;
        if (n > cap) n = cap;
    }
    ssize_t r = real_read(fd, buf, n);
    int e = errno;
    after(ka_, s_, 'R', "read", fp_, NULL, r, e);
    errno = e;
    return r;
}
ssize_t pread64(int fd, void *buf, size_t n, off64_t off) {
    REAL(pread64);
    FD_CALL('R', "read", fd, real_pread64(fd, buf, n, off));
    ssize_t r = real_pread64(fd, buf, n, off);
    int e = errno;
    after(ka_, s_, 'R', "read", fp_, NULL, r, e);
    errno = e;
    return r;
}
ssize_t readv(int fd, const struct iovec *iov, int cnt) {
    REAL(readv);
    FD_CALL('R', "read", fd, real_readv(fd, iov, cnt));
    ssize_t r = real_readv(fd, iov, cnt);
    int e = errno;
    after(ka_, s_, 'R', "read", fp_, NULL, r, e);
    errno = e;
    return r;
}
ssize_t write(int fd, const void *buf, size_t n) {
    REAL(write);
    FD_CALL('M', "write", fd, real_write(fd, buf, n));
    ssize_t r = real_write(fd, buf, n);
    int e = errno;
    after(ka_, s_, 'M', "write", fp_, NULL, r, e);
    errno = e;
    return r;
}
ssize_t pwrite64(int fd, const void *buf, size_t n, off64_t off) {
    REAL(pwrite64);
    FD_CALL('M', "write", fd, real_pwrite64(fd, buf, n, off));
    ssize_t r = real_pwrite64(fd, buf, n, off);
    int e = errno;
    after(ka_, s_, 'M', "write", fp_, NULL, r, e);
    errno = e;
    return r;
}
ssize_t writev(int fd, const struct iovec *iov, int cnt) {
    REAL(writev);
    FD_CALL('M', "write", fd, real_writev(fd, iov, cnt));
    ssize_t r = real_writev(fd, iov, cnt);
    int e = errno;
    after(ka_, s_, 'M', "write", fp_, NULL, r, e);
    errno = e;
    return r;
}
ssize_t copy_file_range(int fdin, off64_t *offin, int fdout, off64_t *offout, size_t len, unsigned int flags) {
    REAL(copy_file_range);
    FD_CALL('M', "copy", fdout, real_copy_file_range(fdin, offin, fdout, offout, len, flags));
    ssize_t r = real_copy_file_range(fdin, offin, fdout, offout, len, flags);
    int e = errno;
    after(ka_, s_, 'M', "copy", fp_, NULL, r, e);
    errno = e;
    return r;
}
ssize_t sendfile64(int out, int in, off64_t *off, size_t cnt) {
    REAL(sendfile64);
    FD_CALL('M', "copy", out, real_sendfile64(out, in, off, cnt));
    ssize_t r = real_sendfile64(out, in, off, cnt);
    int e = errno;
    after(ka_, s_, 'M', "copy", fp_, NULL, r, e);
    errno = e;
    return r;
}
int ftruncate64(int fd, off64_t len) {
    REAL(ftruncate64);
    FD_CALL('M', "truncate", fd, real_ftruncate64(fd, len));
    int r = real_ftruncate64(fd, len);
    int e = errno;
    after(ka_, s_, 'M', "truncate", fp_, NULL, r, e);
    errno = e;
    return r;
}
int fchmod(int fd, mode_t m) {
    REAL(fchmod);
    FD_CALL('M', "chmod", fd, real_fchmod(fd, m));
    int r = real_fchmod(fd, m);
    int e = errno;
    after(ka_, s_, 'M', "chmod", fp_, NULL, r, e);
    errno = e;
    return r;
}
int fstat64(int fd, struct stat64 *st) {
    REAL(fstat64);
    FD_CALL('R', "stat", fd, real_fstat64(fd, st));
    int r = real_fstat64(fd, st);
    int e = errno;
    after(ka_, s_, 'R', "stat", fp_, NULL, r, e);
    errno = e;
    return r;
}

static int fcntl_common(int (*real)(int, int, ...), int fd, int cmd, void *arg) {
    if (nolock_dir[0] && (cmd == F_SETLK || cmd == F_SETLKW || cmd == 37 /* F_OFD_SETLK */ || cmd == 38 /* F_OFD_SETLKW */)) {
        char fp[8192];
        size_t n = strlen(nolock_dir);
        if (fdp_get(fd, fp, sizeof(fp)) && !strncmp(fp, nolock_dir, n) && (fp[n] == '/' || fp[n] == 0)) {
            long s0 = atomic_fetch_add(&seq, 1) + 1;
            logcall(s0, 'R', "lock", fp, NULL, -1, EOPNOTSUPP, "NOLOCK-DIR");
            errno = EOPNOTSUPP;
            return -1;
        }
    }
    int r = real(fd, cmd, arg);
    if (r == -1 && conflict_enolck && (errno == EAGAIN || errno == EACCES) && (cmd == F_SETLK || cmd == 37 /* F_OFD_SETLK */)) {
        char fp[8192];
        if (fdp_get(fd, fp, sizeof(fp))) {
            long s0 = atomic_fetch_add(&seq, 1) + 1;
            logcall(s0, 'R', "lock", fp, NULL, -1, ENOLCK, "CONFLICT-AS-ENOLCK");
        }
        errno = ENOLCK;
    }
    return r;
}

int fcntl(int fd, int cmd, ...) {
    REAL(fcntl);
    va_list ap;
    va_start(ap, cmd);
    void *arg = va_arg(ap, void *);
    va_end(ap);
    return fcntl_common(real_fcntl, fd, cmd, arg);
}

int fcntl64(int fd, int cmd, ...) {
    REAL(fcntl64);
    va_list ap;
    va_start(ap, cmd);
    void *arg = va_arg(ap, void *);
    va_end(ap);
    return fcntl_common(real_fcntl64, fd, cmd, arg);
}

int ioctl(int fd, unsigned long req, ...) {
    REAL(ioctl);
    va_list ap;
    va_start(ap, req);
    void *arg = va_arg(ap, void *);
    va_end(ap);
    char fp[8192];
    if (!fdp_get(fd, fp, sizeof(fp)) || !relevant(fp)) return real_ioctl(fd, req, arg);
    if (req == (unsigned long)FICLONE) {
        long s;
        int ka;
        int inj = gate('M', "clone", fp, &s, &ka);
        if (inj) {
            logcall(s, 'M', "clone", fp, NULL, -1, inj, "INJECTED");
            errno = inj;
            return -1;
        }
        int r;
        int e = 0;
        if (ficlone_emulate) {
            int src = (int)(long)arg;
            struct stat64 st;
            REAL(fstat64);
            r = -1;
            /* a real clone is atomic: no kill from another thread in the middle of the emulation */
            pthread_mutex_lock(&emu_mu);
            if (real_fstat64(src, &st) == 0) {
                char buf[65536];
                off_t off = 0;
                r = 0;
                while (off < st.st_size) {
                    ssize_t n = syscall(SYS_pread64, src, buf, sizeof(buf), off);
                    if (n <= 0) break;
                    if (syscall(SYS_pwrite64, fd, buf, (size_t)n, off) != n) {
                        r = -1;
                        break;
                    }
                    off += n;
                }
                if (r == 0 && syscall(SYS_ftruncate, fd, (off_t)st.st_size) != 0) r = -1;
            }
            e = errno;
            pthread_mutex_unlock(&emu_mu);
        } else {
            r = real_ioctl(fd, req, arg);
            e = errno;
        }
        after(ka, s, 'M', "clone", fp, NULL, r, e);
        errno = e;
        return r;
    }
    if (req == (unsigned long)FS_IOC_FIEMAP) {
        long s;
        int ka;
        int inj = gate('R', "fiemap", fp, &s, &ka);
        if (inj) {
            logcall(s, 'R', "fiemap", fp, NULL, -1, inj, "INJECTED");
            errno = inj;
            return -1;
        }
        int r = real_ioctl(fd, req, arg);
        int e = errno;
        after(ka, s, 'R', "fiemap", fp, NULL, r, e);
        errno = e;
        return r;
    }
    return real_ioctl(fd, req, arg);
}

/* ---- path based mutating calls ------------------------------------------------------------ */

int rename(const char *a, const char *b) {
    REAL(rename);
    char ab1[8192], ab2[8192];
    const char *p1 = abspath(AT_FDCWD, a, ab1, sizeof(ab1));
    const char *p2 = abspath(AT_FDCWD, b, ab2, sizeof(ab2));
    if (!relevant(p1) && !relevant(p2)) return real_rename(a, b);
    long s;
    int ka;
    int inj = gate('M', "rename", p1, &s, &ka);
    if (inj) {
        logcall(s, 'M', "rename", p1, p2, -1, inj, "INJECTED");
        errno = inj;
        return -1;
    }
    int r = real_rename(a, b);
    int e = errno;
    after(ka, s, 'M', "rename", p1, p2, r, e);
    errno = e;
    return r;
}
int renameat(int d1, const char *a, int d2, const char *b) {
    REAL(renameat);
    char ab1[8192], ab2[8192];
    const char *p1 = abspath(d1, a, ab1, sizeof(ab1));
    const char *p2 = abspath(d2, b, ab2, sizeof(ab2));
    if (!relevant(p1) && !relevant(p2)) return real_renameat(d1, a, d2, b);
    long s;
    int ka;
    int inj = gate('M', "rename", p1, &s, &ka);
    if (inj) {
        logcall(s, 'M', "rename", p1, p2, -1, inj, "INJECTED");
        errno = inj;
        return -1;
    }
    int r = real_renameat(d1, a, d2, b);
    int e = errno;
    after(ka, s, 'M', "rename", p1, p2, r, e);
    errno = e;
    return r;
}
int renameat2(int d1, const char *a, int d2, const char *b, unsigned int flags) {
    REAL(renameat2);
    char ab1[8192], ab2[8192];
    const char *p1 = abspath(d1, a, ab1, sizeof(ab1));
    const char *p2 = abspath(d2, b, ab2, sizeof(ab2));
    if (!relevant(p1) && !relevant(p2)) return real_renameat2(d1, a, d2, b, flags);
    long s;
    int ka;
    int inj = gate('M', "rename", p1, &s, &ka);
    if (inj) {
        logcall(s, 'M', "rename", p1, p2, -1, inj, "INJECTED");
        errno = inj;
        return -1;
    }
    int r = real_renameat2(d1, a, d2, b, flags);
    int e = errno;
    after(ka, s, 'M', "rename", p1, p2, r, e);
    errno = e;
    return r;
}
int linkat(int d1, const char *a, int d2, const char *b, int flags) {
    REAL(linkat);
    char ab1[8192], ab2[8192];
    const char *p1 = abspath(d1, a, ab1, sizeof(ab1));
    const char *p2 = abspath(d2, b, ab2, sizeof(ab2));
    if (!relevant(p1) && !relevant(p2)) return real_linkat(d1, a, d2, b, flags);
    long s;
    int ka;
    int inj = gate('M', "link", p2, &s, &ka);
    if (inj) {
        logcall(s, 'M', "link", p1, p2, -1, inj, "INJECTED");
        errno = inj;
        return -1;
    }
    int r = real_linkat(d1, a, d2, b, flags);
    int e = errno;
    after(ka, s, 'M', "link", p1, p2, r, e);
    errno = e;
    return r;
}
int symlink(const char *target, const char *linkpath) {
    REAL(symlink);
    char ab2[8192];
    const char *p2 = abspath(AT_FDCWD, linkpath, ab2, sizeof(ab2));
    if (!relevant(p2)) return real_symlink(target, linkpath);
    long s;
    int ka;
    int inj = gate('M', "symlink", p2, &s, &ka);
    if (inj) {
        logcall(s, 'M', "symlink", target, p2, -1, inj, "INJECTED");
        errno = inj;
        return -1;
    }
    int r = real_symlink(target, linkpath);
    int e = errno;
    after(ka, s, 'M', "symlink", target, p2, r, e);
    errno = e;
    return r;
}
int unlink(const char *p) {
    REAL(unlink);
    PATH1_CALL('M', "unlink", AT_FDCWD, p, real_unlink(p), -1);
    int r = real_unlink(p);
    int e = errno;
    after(ka_, s_, 'M', "unlink", ap_, NULL, r, e);
    errno = e;
    return r;
}
int unlinkat(int d, const char *p, int flags) {
    REAL(unlinkat);
    PATH1_CALL('M', "unlink", d, p, real_unlinkat(d, p, flags), -1);
    int r = real_unlinkat(d, p, flags);
    int e = errno;
    after(ka_, s_, 'M', "unlink", ap_, NULL, r, e);
    errno = e;
    return r;
}
int mkdir(const char *p, mode_t m) {
    REAL(mkdir);
    PATH1_CALL('M', "mkdir", AT_FDCWD, p, real_mkdir(p, m), -1);
    int r = real_mkdir(p, m);
    int e = errno;
    after(ka_, s_, 'M', "mkdir", ap_, NULL, r, e);
    errno = e;
    return r;
}
int mkfifo(const char *p, mode_t m) {
    REAL(mkfifo);
    PATH1_CALL('M', "mkfifo", AT_FDCWD, p, real_mkfifo(p, m), -1);
    int r = real_mkfifo(p, m);
    int e = errno;
    after(ka_, s_, 'M', "mkfifo", ap_, NULL, r, e);
    errno = e;
    return r;
}
int utimensat(int d, const char *p, const struct timespec ts[2], int flags) {
    REAL(utimensat);
    if (!p) {
        /* futimens style: by fd */
        FD_CALL('M', "utimes", d, real_utimensat(d, p, ts, flags));
        int r0 = real_utimensat(d, p, ts, flags);
        int e0 = errno;
        after(ka_, s_, 'M', "utimes", fp_, NULL, r0, e0);
        errno = e0;
        return r0;
    }
    PATH1_CALL('M', "utimes", d, p, real_utimensat(d, p, ts, flags), -1);
    int r = real_utimensat(d, p, ts, flags);
    int e = errno;
    after(ka_, s_, 'M', "utimes", ap_, NULL, r, e);
    errno = e;
    return r;
}
int utimes(const char *p, const struct timeval tv[2]) {
    REAL(utimes);
    PATH1_CALL('M', "utimes", AT_FDCWD, p, real_utimes(p, tv), -1);
    int r = real_utimes(p, tv);
    int e = errno;
    after(ka_, s_, 'M', "utimes", ap_, NULL, r, e);
    errno = e;
    return r;
}
int lutimes(const char *p, const struct timeval tv[2]) {
    REAL(lutimes);
    PATH1_CALL('M', "utimes", AT_FDCWD, p, real_lutimes(p, tv), -1);
    int r = real_lutimes(p, tv);
    int e = errno;
    after(ka_, s_, 'M', "utimes", ap_, NULL, r, e);
    errno = e;
    return r;
}

/* ---- path based read-side calls ----------------------------------------------------------- */

int stat64(const char *p, struct stat64 *st) {
    REAL(stat64);
    PATH1_CALL('R', "stat", AT_FDCWD, p, real_stat64(p, st), -1);
    int r = real_stat64(p, st);
    int e = errno;
    after(ka_, s_, 'R', "stat", ap_, NULL, r, e);
    errno = e;
    return r;
}
int lstat64(const char *p, struct stat64 *st) {
    REAL(lstat64);
    PATH1_CALL('R', "lstat", AT_FDCWD, p, real_lstat64(p, st), -1);
    int r = real_lstat64(p, st);
    int e = errno;
    after(ka_, s_, 'R', "lstat", ap_, NULL, r, e);
    errno = e;
    return r;
}
int fstatat64(int d, const char *p, struct stat64 *st, int flags) {
    REAL(fstatat64);
    const char *fn = (flags & AT_SYMLINK_NOFOLLOW) ? "lstat" : "stat";
    PATH1_CALL('R', fn, d, p, real_fstatat64(d, p, st, flags), -1);
    int r = real_fstatat64(d, p, st, flags);
    int e = errno;
    after(ka_, s_, 'R', fn, ap_, NULL, r, e);
    errno = e;
    return r;
}
int statx(int d, const char *p, int flags, unsigned int mask, struct statx *st) {
    REAL(statx);
    if (p && p[0] == 0 && (flags & AT_EMPTY_PATH)) {
        FD_CALL('R', "stat", d, real_statx(d, p, flags, mask, st));
        int r0 = real_statx(d, p, flags, mask, st);
        int e0 = errno;
        after(ka_, s_, 'R', "stat", fp_, NULL, r0, e0);
        errno = e0;
        return r0;
    }
    const char *fn = (flags & AT_SYMLINK_NOFOLLOW) ? "lstat" : "stat";
    PATH1_CALL('R', fn, d, p, real_statx(d, p, flags, mask, st), -1);
    int r = real_statx(d, p, flags, mask, st);
    int e = errno;
    after(ka_, s_, 'R', fn, ap_, NULL, r, e);
    errno = e;
    return r;
}
ssize_t readlink(const char *p, char *buf, size_t n) {
    REAL(readlink);
    PATH1_CALL('R', "readlink", AT_FDCWD, p, real_readlink(p, buf, n), -1);
    ssize_t r = real_readlink(p, buf, n);
    int e = errno;
    after(ka_, s_, 'R', "readlink", ap_, NULL, r, e);
    errno = e;
    return r;
}
char *realpath(const char *p, char *resolved) {
    static char *(*real_realpath)(const char *, char *) = NULL;
    if (!real_realpath) real_realpath = dlsym(RTLD_NEXT, "realpath");
    PATH1_CALL('R', "realpath", AT_FDCWD, p, real_realpath(p, resolved), NULL);
    char *r = real_realpath(p, resolved);
    int e = errno;
    after(ka_, s_, 'R', "realpath", ap_, NULL, r ? 0 : -1, e);
    errno = e;
    return r;
}
DIR *opendir(const char *p) {
    REAL(opendir);
    PATH1_CALL('R', "opendir", AT_FDCWD, p, real_opendir(p), NULL);
    DIR *r = real_opendir(p);
    int e = errno;
    if (r) fdp_set(dirfd(r), ap_);
    after(ka_, s_, 'R', "opendir", ap_, NULL, r ? 0 : -1, e);
    errno = e;
    return r;
}
DIR *fdopendir(int fd) {
    REAL(fdopendir);
    char fp[8192];
    if (!fdp_get(fd, fp, sizeof(fp)) || !relevant(fp)) return real_fdopendir(fd);
    long s;
    int ka;
    int inj = gate('R', "opendir", fp, &s, &ka);
    if (inj) {
        logcall(s, 'R', "opendir", fp, NULL, -1, inj, "INJECTED");
        errno = inj;
        return NULL;
    }
    DIR *r = real_fdopendir(fd);
    int e = errno;
    after(ka, s, 'R', "opendir", fp, NULL, r ? 0 : -1, e);
    errno = e;
    return r;
}
struct dirent64 *readdir64(DIR *d) {
    REAL(readdir64);
    char fp[8192];
    int fd = dirfd(d);
    if (!fdp_get(fd, fp, sizeof(fp)) || !relevant(fp)) return real_readdir64(d);
    long s;
    int ka;
    int inj = gate('R', "readdir", fp, &s, &ka);
    if (inj) {
        logcall(s, 'R', "readdir", fp, NULL, -1, inj, "INJECTED");
        errno = inj;
        return NULL;
    }
    errno = 0;
    struct dirent64 *r = real_readdir64(d);
    int e = errno;
    if (r && dtype_unknown) r->d_type = DT_UNKNOWN;
    after(ka, s, 'R', "readdir", fp, r ? r->d_name : NULL, r ? 0 : (e ? -1 : 1), e);
    errno = e;
    return r;
}
