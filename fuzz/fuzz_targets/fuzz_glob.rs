//! C16: fclones' Pattern::glob against the harness' reference matcher, plus conservativeness of
//! directory pruning, on (glob, path) pairs decoded from the fuzzer input.
#![no_main]
#[path = "../../harness/src/glob.rs"]
mod glob;
use fclones::verif::{PathSelector, Pattern, PatternOpts};
use libfuzzer_sys::fuzz_target;

const TOK: [&str; 30] = [
    "a", "b", "c", ".", "-", "+", "(", ")", "^", "$", "ż", "\\*", "\\?", "\\{", "\\|", "?", "*", "**", "/", "[ab]", "[!a]", "[a-c]", "{", ",", "}", "@(", "?(", "+(", "*(", "|",
];
const PCH: [&str; 18] = ["a", "b", "c", ".", "-", "+", "(", "^", "$", "ż", "*", "?", "{", "|", "/", "A", "\n", "Ż"];

fuzz_target!(|data: &[u8]| {
    if data.len() < 3 {
        return;
    }
    let ci = data[0] & 1 == 1;
    let split_at = 1 + (data[1] as usize % (data.len() - 1));
    let glob: String = data[2..split_at.max(2)].iter().take(8).map(|b| TOK[*b as usize % TOK.len()]).collect();
    let path: String = data[split_at.max(2)..].iter().take(10).map(|b| PCH[*b as usize % PCH.len()]).collect();
    let Ok(ast) = glob::parse(&glob) else { return };
    let opts = if ci { PatternOpts::case_insensitive() } else { PatternOpts::default() };
    let pat = match Pattern::glob_with(&glob, &opts) {
        Ok(p) => p,
        Err(e) => panic!("valid glob {:?} rejected: {}", glob, e),
    };
    let want = glob::glob_matches(&ast, &path, ci);
    let got = pat.matches(&path);
    assert_eq!(got, want, "glob {:?} ci={} on {:?}", glob, ci, path);
    // conservativeness for absolute ASCII-only patterns (non-ASCII prefixes are a known open finding)
    if glob.is_ascii() && path.is_ascii() && !path.contains("//") && !path.starts_with('/') && !path.ends_with('/') && !path.is_empty() {
        let abs_glob = format!("/t/{}", glob);
        let abs_path = format!("/t/{}", path);
        if let Ok(p2) = Pattern::glob_with(&abs_glob, &opts) {
            let sel = PathSelector::new(fclones::Path::from("/t")).include_paths(vec![p2]);
            let fp = fclones::Path::from(abs_path.as_str());
            if sel.matches_full_path(&fp) {
                let mut cur = std::path::Path::new(&abs_path).parent();
                while let Some(d) = cur {
                    if d.as_os_str().is_empty() {
                        break;
                    }
                    assert!(sel.matches_dir(&fclones::Path::from(d)), "include {:?} selects {:?} but prunes {:?}", abs_glob, abs_path, d);
                    cur = d.parent();
                }
            }
        }
    }
});
