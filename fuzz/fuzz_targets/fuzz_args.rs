//! C17: quote -> split and join -> split round trips on byte strings decoded from the fuzzer input
//! (arguments separated by 0x00, empty arguments skipped); split must not panic on arbitrary text.
#![no_main]
use fclones::verif::{join, quote, split, Arg};
use libfuzzer_sys::fuzz_target;
use std::ffi::OsString;
use std::os::unix::ffi::{OsStrExt, OsStringExt};

fuzz_target!(|data: &[u8]| {
    // clause: split is total on text
    if let Ok(s) = std::str::from_utf8(data) {
        let _ = split(s);
    }
    let args: Vec<Vec<u8>> = data.split(|b| *b == 0).filter(|a| !a.is_empty()).map(|a| a.to_vec()).take(4).collect();
    if args.is_empty() {
        return;
    }
    let a: Vec<Arg> = args.iter().map(|b| Arg::from(OsString::from_vec(b.clone()))).collect();
    for (b, arg) in args.iter().zip(a.iter()) {
        let q = quote(arg.as_os_str().to_os_string());
        let back = split(&q).unwrap_or_else(|e| panic!("split(quote({:?}) = {:?}) failed: {}", b, q, e));
        assert!(back.len() == 1 && back[0].as_os_str().as_bytes() == b.as_slice(), "split(quote({:?}) = {:?}) = {:?}", b, q, back);
    }
    let line = join(&a);
    let back = split(&line).unwrap_or_else(|e| panic!("split(join(..) = {:?}) failed: {}", line, e));
    let got: Vec<Vec<u8>> = back.iter().map(|x| x.as_os_str().as_bytes().to_vec()).collect();
    assert_eq!(got, args, "split(join(..) = {:?})", line);
});
