//! C10: write a report decoded from the fuzzer input with ReportWriter, read it back with
//! open_report, compare; then cut it at a fuzzer-chosen offset and require that only complete
//! original groups come back.
#![no_main]
use arbitrary::{Arbitrary, Unstructured};
use chrono::TimeZone;
use fallible_iterator::FallibleIterator;
use fclones::config::OutputFormat;
use fclones::report::{open_report, FileStats, ReportHeader, ReportWriter};
use fclones::verif::Arg;
use fclones::{FileGroup, FileHash, FileLen};
use libfuzzer_sys::fuzz_target;
use std::ffi::OsString;
use std::os::unix::ffi::{OsStrExt, OsStringExt};

fn name(u: &mut Unstructured) -> Option<Vec<u8>> {
    let n = u.int_in_range(1..=6).ok()?;
    let mut v = Vec::new();
    for _ in 0..n {
        let b = u8::arbitrary(u).ok()?;
        v.push(match b {
            0 => b' ',
            b'/' => b'\\',
            x => x,
        });
    }
    if v == b"." || v == b".." {
        v.push(b'x');
    }
    Some(v)
}

fn path(u: &mut Unstructured) -> Option<Vec<u8>> {
    let n = u.int_in_range(1..=3).ok()?;
    let mut v = Vec::new();
    for _ in 0..n {
        v.push(b'/');
        v.extend(name(u)?);
    }
    Some(v)
}

fn pb(p: &fclones::Path) -> Vec<u8> {
    p.to_path_buf().as_os_str().as_bytes().to_vec()
}

fuzz_target!(|data: &[u8]| {
    let mut u = Unstructured::new(data);
    let Some(()) = (|| {
        let json = bool::arbitrary(&mut u).ok()?;
        let ngroups = u.int_in_range(0..=4).ok()?;
        let mut groups = vec![];
        for _ in 0..ngroups {
            let nf = u.int_in_range(1..=4).ok()?;
            let mut files = vec![];
            for _ in 0..nf {
                files.push(fclones::Path::from(std::path::PathBuf::from(OsString::from_vec(path(&mut u)?))));
            }
            let hl = *u.choose(&[16usize, 32, 64]).ok()?;
            let hash: Vec<u8> = (0..hl).map(|i| (i as u8).wrapping_mul(31)).collect();
            groups.push(FileGroup { file_len: FileLen(u64::arbitrary(&mut u).ok()? >> 2), file_hash: FileHash::from(hash.as_slice()), files });
        }
        let nargs = u.int_in_range(1..=4).ok()?;
        let mut command = vec![];
        let mut raw_args = vec![];
        for _ in 0..nargs {
            let a = name(&mut u)?;
            raw_args.push(a.clone());
            command.push(Arg::from(OsString::from_vec(a)));
        }
        let base = path(&mut u)?;
        let off = chrono::FixedOffset::east_opt(u.int_in_range(-14 * 60..=14 * 60).ok()? * 60)?;
        let ts = off.timestamp_millis_opt(u.int_in_range(0i64..=4_000_000_000_000).ok()?).single()?;
        let header = ReportHeader {
            version: "0.35.0".into(),
            timestamp: ts,
            command,
            base_dir: fclones::Path::from(std::path::PathBuf::from(OsString::from_vec(base.clone()))),
            stats: Some(FileStats { group_count: groups.len(), total_file_count: 1, total_file_size: FileLen(2), redundant_file_count: 3, redundant_file_size: FileLen(4), missing_file_count: 5, missing_file_size: FileLen(6) }),
        };
        let mut bytes = Vec::new();
        ReportWriter::new(&mut bytes, false).write(if json { OutputFormat::Json } else { OutputFormat::Default }, &header, groups.iter()).unwrap();
        // round trip
        let mut r = open_report(std::io::Cursor::new(bytes.clone())).expect("own report not recognised");
        let h = r.read_header().expect("own header rejected");
        assert_eq!(h.timestamp.timestamp_millis(), header.timestamp.timestamp_millis());
        assert_eq!(pb(&h.base_dir), pb(&header.base_dir), "base dir");
        let got_args: Vec<Vec<u8>> = h.command.iter().map(|a| a.as_os_str().as_bytes().to_vec()).collect();
        assert_eq!(got_args, raw_args, "command");
        let mut it = r.read_groups().expect("groups");
        let mut n = 0;
        while let Some(g) = it.next().expect("own group rejected") {
            let w = &groups[n];
            assert!(g.file_len == w.file_len && g.file_hash == w.file_hash && g.files.len() == w.files.len(), "group {}", n);
            for (a, b) in g.files.iter().zip(w.files.iter()) {
                assert_eq!(pb(a), pb(b), "path in group {}", n);
            }
            n += 1;
        }
        assert_eq!(n, groups.len(), "group count");
        // truncation (text only): only complete original groups may come back
        if !json && !bytes.is_empty() {
            let cut = u.int_in_range(0..=bytes.len() - 1).ok()?;
            let mut ends = vec![];
            for k in 0..=groups.len() {
                let mut b2 = Vec::new();
                ReportWriter::new(&mut b2, false).write(OutputFormat::Default, &header, groups[..k].iter()).unwrap();
                ends.push(b2.len());
            }
            if let Ok(mut r) = open_report(std::io::Cursor::new(bytes[..cut].to_vec())) {
                if r.read_header().is_ok() {
                    if let Ok(mut it) = r.read_groups() {
                        let mut i = 0;
                        loop {
                            match it.next() {
                                Ok(Some(g)) => {
                                    assert!(i < groups.len() && (ends[i + 1] <= cut || ends[i + 1] == cut + 1), "group {} returned from a report cut at {} (ends {:?})", i, cut, ends);
                                    for (a, b) in g.files.iter().zip(groups[i].files.iter()) {
                                        assert_eq!(pb(a), pb(b), "truncated report yields a different path");
                                    }
                                    assert_eq!(g.files.len(), groups[i].files.len());
                                    i += 1;
                                }
                                Ok(None) => {
                                    assert!(ends[i] == cut || ends[i] == cut + 1 || (i == 0 && cut <= ends[0]), "clean end inside group {} (cut {}, ends {:?})", i, cut, ends);
                                    break;
                                }
                                Err(_) => break,
                            }
                        }
                    }
                }
            }
        }
        Some(())
    })() else {
        return;
    };
});
