#!/bin/bash
# usage: run_fuzz.sh <property id> <target> <runs>
# Coverage-guided stage of a thorough tier: builds the libFuzzer target against /repo's working tree
# (hooks enabled), replays the committed regression inputs, runs a bounded campaign (-runs, pinned
# -seed) from the committed seed inputs on a fresh corpus directory, and merges its statistics into
# evidence/<id>.json (coverage.fuzz). Exit 0 held, 1 + VIOLATION line, 2 inconclusive.
set -u
ID=$1; TGT=$2; RUNS=${3:-2000000}
V=/verif
SEED=$(( ${VERIF_SEED:-1} % 2147483647 )); [ "$SEED" = 0 ] && SEED=1
export CARGO_NET_OFFLINE=true
$V/fuzz/build.sh || exit 2
BIN=$V/target/fuzz/x86_64-unknown-linux-gnu/release/$TGT
[ -x "$BIN" ] || { echo "BUILD-FAILED: $BIN missing"; exit 2; }
WORK=$(mktemp -d /var/tmp/fcvfuzz.XXXXXX)
trap 'rm -rf "$WORK"' EXIT
mkdir -p $WORK/corpus $WORK/art $V/replays/$ID
viol() { # <file> <what>
  local h; h=$(sha1sum "$1" | cut -c1-16)
  cp "$1" $V/replays/$ID/fuzz-$TGT-$h
  echo "VIOLATION property=$ID replay=$V/replays/$ID/fuzz-$TGT-$h ($2; reproduce: $BIN $V/replays/$ID/fuzz-$TGT-$h)"
}
# 1. regression inputs
REG=0
for f in $V/fuzz/regress/$TGT/*; do
  [ -f "$f" ] || continue
  REG=$((REG+1))
  if ! "$BIN" "$f" >$WORK/replay.log 2>&1; then
    grep -E "panicked|ERROR|assert" $WORK/replay.log | head -5
    viol "$f" "regression input"; exit 1
  fi
done
# 2. campaign
cp $V/fuzz/seeds/$TGT/* $WORK/corpus/ 2>/dev/null
T0=$(date +%s)
JOBS=${FUZZ_JOBS:-8}
PER=$(( (RUNS + JOBS - 1) / JOBS ))
RC=0
PIDS=""
for j in $(seq 1 $JOBS); do
  "$BIN" -runs=$PER -seed=$((SEED + j)) -max_len=512 -len_control=0 -timeout=120 -rss_limit_mb=4096 -print_final_stats=1 -reload=1 \
    -artifact_prefix=$WORK/art/ $WORK/corpus >$WORK/fuzz-$j.log 2>&1 &
  PIDS="$PIDS $!"
done
for p in $PIDS; do wait $p || RC=$?; done
cat $WORK/fuzz-*.log > $WORK/fuzz.log 2>/dev/null
T1=$(date +%s)
EXECS=$(grep -h -E "^stat::number_of_executed_units:" $WORK/fuzz-*.log 2>/dev/null | awk '{s+=$2} END {print s+0}')
COV=$(grep -h -oE "cov: [0-9]+" $WORK/fuzz-*.log 2>/dev/null | awk '{if ($2>m) m=$2} END {print m+0}')
FT=$(grep -h -oE "ft: [0-9]+" $WORK/fuzz-*.log 2>/dev/null | awk '{if ($2>m) m=$2} END {print m+0}')
CORP=$(ls $WORK/corpus | wc -l)
SAMPLES=$(ls -S $WORK/corpus | head -3 | while read f; do xxd -p -c 64 $WORK/corpus/$f | head -1; done | python3 -c "import sys,json;print(json.dumps([l.strip() for l in sys.stdin]))")
python3 - "$V/evidence/$ID.json" "$TGT" "$RUNS" "$SEED" "$EXECS" "$COV" "$FT" "$CORP" "$REG" "$((T1-T0))" "$RC" "$SAMPLES" <<'EOF'
import json,sys
p,tgt,runs,seed,execs,cov,ft,corp,reg,secs,rc,samples=sys.argv[1:]
try: d=json.load(open(p))
except Exception: sys.exit(0)
c=d.setdefault("coverage",{})
c["fuzz"]={"engine":"libFuzzer via cargo-fuzz (ASan, -O, debug assertions on), parallel jobs sharing one corpus directory","target":tgt,"runs_requested":int(runs),"seed":int(seed),
 "executed_units":int(execs),"edge_coverage":int(cov),"features":int(ft),"corpus_files_at_end":int(corp),
 "regression_inputs_replayed":int(reg),"wall_s":int(secs),"exit_code":int(rc),"corpus_samples_hex":json.loads(samples),
 "note":"inputs are decoded into structured arguments inside the target; the oracle (round trip / reference matcher) is an assertion in the target; corpus_files_at_end counts inputs that reached new coverage"}
json.dump(d,open(p,"w"),indent=1)
EOF
if [ $RC -ne 0 ]; then
  A=$(ls $WORK/art/crash-* $WORK/art/timeout-* $WORK/art/oom-* 2>/dev/null | head -1)
  if ls $WORK/art/crash-* >/dev/null 2>&1; then
    A=$(ls $WORK/art/crash-* | head -1)
    grep -E "panicked at|assertion|ERROR: " $WORK/fuzz.log | head -5
    viol "$A" "fuzz campaign"; exit 1
  fi
  for a in $WORK/art/timeout-* $WORK/art/oom-* $WORK/art/slow-unit-*; do [ -f "$a" ] && cp "$a" $V/replays/$ID/ ; done
  echo "INCONCLUSIVE: fuzz target $TGT ended with status $RC without a crash artifact (timeout/oom): $(tail -3 $WORK/fuzz.log | tr '\n' ' ')"
  exit 2
fi
echo "fuzz $TGT: $EXECS executions, cov $COV, ft $FT, corpus $CORP, ${REG} regression inputs, $((T1-T0)) s: no violation"
exit 0
