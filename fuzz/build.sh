#!/bin/bash
# Builds the three libFuzzer targets (ASan, -O, debug assertions on) against /repo's working tree, hooks enabled.
# Exit 0 ok, 2 when something does not build.
set -u
export CARGO_NET_OFFLINE=true
V=/verif
mkdir -p $V/target
LOG=$V/target/fuzz-build.log
( flock 9
  cd $V/fuzz || exit 2
  RUSTFLAGS="--cfg pkolaczk_fclones_verif" cargo +nightly fuzz build --fuzz-dir $V/fuzz -O >$LOG 2>&1 || { echo "BUILD-FAILED: fuzz targets (see $LOG)"; tail -20 $LOG; exit 2; }
) 9>$V/target/.fuzz.lock
