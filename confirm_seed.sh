#!/bin/bash
# usage: confirm_seed.sh <ID> <mN>  — independently confirms a seeded change in its scratch worktree:
# tests pass with the change, demo fails with it and passes without it. Writes RESULT into OUT/<mN>/confirm.txt
ID=$1; M=$2; W=${SEEDROOT:-/var/tmp/seed3}/$ID; O=$W/OUT/$M
cd $W || exit 2
export CARGO_HOME=/root/.cargo RUSTUP_HOME=/root/.rustup HOME=$W/scratch_home XDG_CACHE_HOME=$W/scratch_home/.cache; mkdir -p $XDG_CACHE_HOME
git checkout -q -- . ; git status --porcelain --untracked-files=no
R=$O/confirm.txt; : > $R
git apply $O/patch.diff || { echo "apply failed" >> $R; exit 1; }
T=$(cargo test --workspace --no-fail-fast --offline 2>&1 | grep -E "^test result" | awk '{p+=$4; f+=$6} END {print p" passed "f" failed"}')
echo "tests with change: $T" >> $R
bash $O/demo.sh $W > $O/demo.with.log 2>&1; echo "demo with change: exit $?" >> $R
git checkout -q -- .
bash $O/demo.sh $W > $O/demo.without.log 2>&1; echo "demo without change: exit $?" >> $R
rm -rf $W/scratch $W/scratch_home
cat $R
