#!/bin/bash
# usage: seedtest.sh <patch.diff> <ID> [tier]   — applies a seeded change to /repo, runs the check, reverts.
P=$(readlink -f "$1"); ID=$2; TIER=${3:-quick}
cd /repo || exit 3
if [ -n "$(git status --porcelain --untracked-files=no)" ]; then echo "repo dirty"; exit 3; fi
if ! git apply "$P" 2>/dev/null; then
  if ! patch -p1 -s --no-backup-if-mismatch < "$P"; then echo "PATCH-DOES-NOT-APPLY $P"; git checkout -- .; exit 4; fi
fi
cd /verif
START=$(date +%s)
./run.sh $ID $TIER > /tmp/seedtest.$$.log 2>&1
RC=$?
END=$(date +%s)
echo "seed=$P check=$ID tier=$TIER exit=$RC secs=$((END-START)) $(grep -c '^VIOLATION' /tmp/seedtest.$$.log) violations"
grep -A3 '^VIOLATION' /tmp/seedtest.$$.log | head -12
[ $RC -eq 2 ] && tail -5 /tmp/seedtest.$$.log
rm -f /tmp/seedtest.$$.log
cd /repo && git checkout -- . && find /repo/fclones -name '*.rej' -o -name '*.orig' | xargs -r rm -f; git status --porcelain --untracked-files=no
/verif/build.sh >/dev/null 2>&1   # binaries back in sync with the unchanged tree
exit $RC
