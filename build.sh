#!/bin/bash
# Rebuilds everything the checks need from /repo's current working tree (hooks enabled).
# Exit 0 on success, 2 when something does not build (inconclusive, never a violation).
set -u
export CARGO_NET_OFFLINE=true
V=/verif
mkdir -p $V/target $V/replays $V/evidence
LOG=$V/target/build.log
(
  flock 9
  cd /repo || exit 2
  RUSTFLAGS="--cfg pkolaczk_fclones_verif" CARGO_PROFILE_RELEASE_LTO=false \
  CARGO_PROFILE_RELEASE_CODEGEN_UNITS=16 \
    cargo build --offline --release -p fclones --bin fclones --target-dir $V/target/fclones >$LOG 2>&1 \
    || { echo "BUILD-FAILED: fclones binary (see $LOG)"; tail -30 $LOG; exit 2; }
  cd $V/harness || exit 2
  cargo build --release >>$LOG 2>&1 \
    || { echo "BUILD-FAILED: harness (see $LOG)"; tail -40 $LOG; exit 2; }
  if [ -f $V/shim/fcv_shim.c ]; then
    if [ ! -f $V/target/fcv_shim.so ] || [ $V/shim/fcv_shim.c -nt $V/target/fcv_shim.so ]; then
      cc -O2 -fPIC -shared -o $V/target/fcv_shim.so.tmp $V/shim/fcv_shim.c -ldl -lpthread >>$LOG 2>&1 \
        && mv $V/target/fcv_shim.so.tmp $V/target/fcv_shim.so \
        || { echo "BUILD-FAILED: shim"; tail -20 $LOG; exit 2; }
    fi
  fi
  mkdir -p $V/target/helpers
  ln -sf $V/target/harness/release/fcv $V/target/helpers/fcv-tr
  if [ -d $V/helpers ]; then
    mkdir -p $V/target/helpers
    for f in $V/helpers/*; do
      [ -f "$f" ] && install -m 755 "$f" $V/target/helpers/ 2>/dev/null
    done
  fi
  exit 0
) 9>$V/target/.build.lock
