#!/bin/bash
# usage: run.sh <property id> [quick|thorough]
# Contract: exit 0 = held on everything explored; exit 1 + "VIOLATION property=<id> replay=<path>";
# exit 2 = inconclusive (build failure, watchdog). Rewrites evidence/<id>.json on every run.
# The thorough tier of C10, C16 and C17 adds a coverage-guided libFuzzer campaign (fuzz/run_fuzz.sh)
# after the generated search; its statistics are merged into the evidence file.
set -u
ID=$1
TIER=${2:-${VERIF_TIER:-quick}}
cd /verif || exit 2
./build.sh || exit 2
/verif/target/harness/release/fcv check "$ID" --tier "$TIER"
RC=$?
[ $RC -ne 0 ] && exit $RC
if [ "$TIER" = thorough ]; then
  case "$ID" in
    C10) /verif/fuzz/run_fuzz.sh C10 fuzz_report ${FUZZ_RUNS:-1500000}; RC=$? ;;
    C16) /verif/fuzz/run_fuzz.sh C16 fuzz_glob ${FUZZ_RUNS:-1500000}; RC=$? ;;
    C17) /verif/fuzz/run_fuzz.sh C17 fuzz_args ${FUZZ_RUNS:-1500000}; RC=$? ;;
  esac
fi
exit $RC
