#!/bin/bash
# usage: run.sh <property id> [quick|thorough]
# Contract: exit 0 = held on everything explored; exit 1 + "VIOLATION property=<id> replay=<path>";
# exit 2 = inconclusive (build failure, watchdog). Rewrites evidence/<id>.json on every run.
set -u
ID=$1
TIER=${2:-${VERIF_TIER:-quick}}
cd /verif || exit 2
./build.sh || exit 2
exec /verif/target/harness/release/fcv check "$ID" --tier "$TIER"
