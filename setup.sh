#!/bin/bash
# Run once after a fresh restore, offline: builds the fclones binary (hooks on), the harness,
# the LD_PRELOAD shim and the fuzz targets from files on disk only.
set -u
cd /verif || exit 1
./build.sh || exit 1
if [ -x /verif/fuzz/build.sh ]; then /verif/fuzz/build.sh || exit 1; fi
echo "setup ok"
