#!/usr/bin/env python3
"""Regenerates MANIFEST.json from the table below (keeps it valid at all times)."""
import json, subprocess
props = [json.loads(l) for l in open('/verif/properties.jsonl')]
ids = [p['id'] for p in props]

# id -> (level category, level text, note, technique, design_ref)
CHECKS = {}
def claim(id, cat, text, note, tech, ref):
    CHECKS[id] = (cat, text, note, tech, ref)

claim("C17", "exploration",
      "Bounded-exhaustive enumeration of all strings of <=3 (quick) / <=4 (thorough) symbols over the 20-symbol hostile alphabet and all short lists, plus random long strings with shrinking, through four oracles: quote->split round trip, join->split round trip, differential decoding by the real bash, and panic-freedom of split. Finds any encoding defect that manifests within the enumerated bound or the random sample; says nothing beyond it.",
      "Trusts bash on PATH as the reference decoder; arguments are non-empty and NUL-free; harness links the fclones library built from /repo with the verif cfg (re-exports only).",
      "bounded-exhaustive enumeration + proptest random generation with round-trip and differential (bash) oracles; thorough tier adds a coverage-guided libFuzzer campaign (fuzz_args, round-trip oracle inside the target)", "DESIGN.md 4 C17")

claim("C01", "exploration",
      "Generated trees (near-duplicate pairs differing in one byte at stage-boundary offsets, sizes straddling prefix / 64 KiB buffer / suffix threshold, hard links, symlinks) x generated group configurations (7 hash functions, cache cold+warm, shrinking/keeping/expanding transforms in 5 I/O modes, prefix/suffix knobs, pinned SSD/HDD/unknown, thread specs, -H/-S/-L, rf-over/rf-under/unique, roots as arguments or through --stdin, twin tmpfs file systems with equal inode numbers, roots on devices of different kind, O_NOATIME refused); every reported path is read back by the harness and compared byte for byte, group length checked. A sample of the configuration space per run, shrunk counterexamples; no claim outside the explored cases.",
      "Trusts: harness file reads, native re-implementation of the deterministic helper transforms (self-tested against the helper programs), the disk-kind pin hook. --skip-content-hash excluded by statement.",
      "proptest-generated trees and configurations driving the real binary; oracle = direct byte comparison of reported members", "DESIGN.md 4 C01")
claim("C03", "exploration",
      "Generated trees with shared contents over several directories/roots, hard links, overlapping and repeated roots given as arguments or through --stdin, path pairs whose components concatenate identically, twin tmpfs file systems whose files have equal inode numbers, the second root on another device (root disk = HDD, or a loop device backed by tmpfs = SSD) with the disk kind not pinned, every O_NOATIME open refused with EPERM by the interposer (a user who does not own the files), x configurations (rf-over/rf-under/unique, transform, cache, hash fn, stage knobs, pinned device); report compared as a set of path-sets against a reference content partition + documented replica rule computed by the harness from its own walk. Detects missing, split, merged, duplicated and unselected entries within the explored sample.",
      "Trusts the reference walk/partition model (plain names: no hidden files, ignore files or patterns - those are C09's) and the disk-kind pin hook.",
      "proptest-generated trees/configurations; oracle = reference model (content partition + replica rule) compared set-wise", "DESIGN.md 4 C03")

claim("C06", "exploration",
      "Generated link structures (hard-link sets inside/across roots, file and directory symlinks, overlapping roots, root names that are string prefixes of each other, isolated roots of equal depth and equal last name) x 9 root spellings x rf-over/rf-under/unique/-H/-I/-S/-L; reported classes must equal the reference replica-count model, and canonical / alternative spellings of the same roots, and the same roots fed through --stdin, must give identical groups and statistics (metamorphic).",
      "Trusts the reference replica-count model written from README section 'Handling links' and --help; root arguments are directories.",
      "proptest generation; oracle = reference replica-count model + metamorphic relation over root spellings", "DESIGN.md 4 C06")
claim("C13", "exploration",
      "Generated trees of 20-150 files; report body must be byte-identical across repetitions, 5-7 thread-pool specifications (incl. all pools of size 1 and 64 and 0=auto), root permutations and --stdin; 3 runs under schedule perturbation (the interposer yields or sleeps at pseudo-randomly chosen libc calls), one run with 128-thread pools under prlimit --nofile=80; a second generator checks order independence of the walk (small trees with file/directory symlinks and cycles, overlapping/repeated roots, -L/-S/--depth/--hidden/-H, --rf-over 0: identical body for permuted, reversed and --stdin roots and for size-1 and default pools); partition identical across hash functions, prefix/suffix sizes, pinned device kinds and cache; every run must exit - a run past the watchdog is a violation only when proven hung (no syscalls, no voluntary context switches, no children for 5 s), otherwise inconclusive (exit 2).",
      "Hangs and order nondeterminism are only seen under schedules the OS produces during the run; watchdog 25 s vs ~20 ms normal run time.",
      "proptest generation; metamorphic oracle over tuning knobs, thread pools, root order, repetition; quiescence-based hang detection", "DESIGN.md 4 C13")
claim("C14", "exploration",
      "Generated trees (hostile names, hard-link sets, 1-3 roots) x configurations; each case runs group in text/JSON/CSV/fdupes and with -o; header totals, per-group counts, redundant/missing (recomputed from the listed groups by the reference sub-grouping rule), ordering by size, absolute paths, isolate-root contiguity, cross-format agreement (independent harness parsers) and -o == stdout (also when the -o file already holds a longer, older report) are asserted; roots are given in sorted and non-sorted order, partly nested (a sub-directory of the first root in front of it); swapping the inodes behind two names that differ only in invalid UTF-8 bytes must not change the body; the -o run is repeated with stdout on a pseudo-terminal.",
      "Trusts the harness parsers (documented writer format) and the reference sub-grouping rule.",
      "proptest generation; oracle = invariants over the report + differential across the four output formats", "DESIGN.md 4 C14")

claim("C02", "exploration",
      "Generated end-to-end scenarios (hostile names incl. leading/trailing white space of several kinds, newlines, quotes, non-UTF-8; hard-link sets; symlinks reported with -S; 1-3 roots; decoy files named like trimmed/escaped variants of group members) x group options x text/JSON report x remove/link/link --soft/dedupe/move with -n, priorities, keep/drop globs, isolate, -H, and move targets on the same fs, inside the tree, across devices. Oracle on full inventories (lstat + bytes) before/after: no content lost, max(1,n) sub-groups untouched, nothing outside the report changed, no stray paths, original paths readable (link ops), moved bytes under DIR.",
      "Two open known findings (symlink under another isolate root retained as replica of its own target). Reflink success is unreachable on the sandbox file systems (refusal path only). Files carry old mtimes so the staleness guard is not in play (C04's business).",
      "proptest-generated scenarios driving the real binary; oracle = invariants over before/after inventories of the file system", "DESIGN.md 4 C02")
claim("C08", "exploration",
      "Generated groups (metacharacter/non-ASCII names, hard-link subsets, roots, controlled tied timestamps; a second generator makes groups of 20-48 replicas with more than 20 sub-groups, a third uses hostile file names incl. invalid UTF-8; one report in six comes from `group --transform 'head -c 3'`, one scenario in five from `group --base-dir REL` run elsewhere, every second dedupe command is started in another directory) x priority lists over all 12 values, keep/drop globs from actual names, n explicit or inherited, isolate/-H explicit or inherited through text and JSON headers; the set of files a real run changes must equal the set computed by the reference keep/drop rule; separate clauses for keep patterns, drop patterns and sub-group atomicity.",
      "Reference rule written from --help/README; sub-groups whose members disagree on a sort key skip the exact comparison (undocumented aggregation); glob semantics from the reference matcher.",
      "proptest generation; oracle = reference model of the keep/drop rule compared with inventory diffs", "DESIGN.md 4 C08")
claim("C11", "exploration",
      "Generated scenarios as C02 (one report in five from `group --transform 'head -c 3'`, so that group members differ in size) x remove/link/link --soft/move: three dry runs with different rayon pool sizes plus one under schedule perturbation by the interposer must print identical scripts (modulo temp suffix) in report order; operations parsed from the script must equal the changes of a real run (set, kind, summary counts and bytes); a non-empty script sent to /dev/full must not exit 0; --dry-run -o FILE over an older longer script must leave only the new script; for remove/link/link --soft the script is executed by bash on an identically rebuilt tree and the resulting tree must equal the real run's (paths, types, bytes, symlink targets, hard-link partition).",
      "Open known findings for --symbolic-links combined with --isolate / cross-device move. `dedupe` not compared (reflink unsupported here). atime-based priorities replaced (reads between runs change atimes).",
      "proptest generation; differential oracle: dry-run script vs real run vs bash execution of the script", "DESIGN.md 4 C11")
claim("C18", "exploration",
      "Generated scenarios x `move DIR` with DIR outside/inside the scanned tree, on tmpfs->ext4 (EXDEV copy fallback) and on a loop-mounted ext4 that fclones sees as another mount (copy path), absolute, relative to the tree root or relative to another working directory than the report's base directory, with obstacles planted from a dry run (colliding file, directory at destination, file at parent, dangling symlink); in a third of the cases the k-th mutating libc call (k=1..24) fails with EIO/ENOSPC/EPERM/EINVAL through the LD_PRELOAD interposer; DIR is sometimes spelled `shelf/../dups` through a symlink. Inventory oracle: pre-existing entries under DIR untouched, vanished sources complete at DIR/<abs path> which did not exist before, injective count, unmoved sources untouched with a warning.",
      "One injected failure per run at a generated position (C05 enumerates every position); after an injected failure an incomplete copy may remain under DIR. Loop mount needs root; absent => those cases fall back to the plain ext4 target.",
      "proptest generation; oracle = invariants over before/after inventories", "DESIGN.md 4 C18")
claim("C20", "exploration",
      "Generated scenarios x all five operations x subsets of the intended files locked by the harness through open-file-description write or read locks on four byte ranges (whole file, beyond EOF, first byte, tail) x --no-lock on/off x locked files writable or read-only with fclones run without CAP_DAC_OVERRIDE (setpriv) x a directory without lock support (EOPNOTSUPP through the interposer) x a failing lstat of a locked file x same-mount and cross-mount move targets. Locked files must be untouched with a warning; unlocked intended files must be processed; with --no-lock everything intended is processed. In a fifth of the cases the conflict is reported to fclones as ENOLCK instead of EAGAIN.",
      "OFD locks of the harness conflict with fclones' F_SETLK like a foreign process' lock; intention learnt from a dry run.",
      "proptest generation; oracle = inventory comparison against the dry-run intention under foreign locks", "DESIGN.md 4 C20")

claim("C10", "exploration",
      "In-process through fclones' public ReportWriter/open_report: bounded-exhaustive over all strings of <=3/<=4 symbols of the 20-symbol hostile alphabet placed as first/middle/last path component, command argument and base-dir component, in text and JSON; random reports (arbitrary non-NUL bytes, 0-6 groups plus groups of 1023-2050 files, ms timestamps with offsets, statistics, 16/32/64-byte hashes) with shrinking; a quarter of the random reports additionally cut at every byte offset / line boundary: only complete original groups may be yielded and no clean end inside a group, whether the stream ends there with EOF or with a read error (EIO). Oracle = field-by-field round trip.",
      "Links the fclones library built from /repo (verif cfg re-exports Arg only). Absolute paths, non-empty NUL-free components and arguments. A cut removing only the final newline may be accepted.",
      "bounded-exhaustive enumeration + proptest random generation; round-trip and truncation oracles; thorough tier adds a coverage-guided libFuzzer campaign (fuzz_report, same oracles inside the target)", "DESIGN.md 4 C10")
claim("C16", "exploration",
      "In-process: every glob of <=3/<=4 tokens over the 19-token alphabet against all 4680 paths of <=4 components (one component contains a line feed), case-sensitive and ignore-case, Pattern::glob vs the harness' reference matcher (README Path Globbing); random 7-token globs and grammar-generated nested groups with metacharacter literals; conservativeness of PathSelector::matches_dir for every ancestor of every selected path under random include/exclude sets (absolute and base-dir-relative, base dirs containing . - + ( ) $ non-ASCII).",
      "One open known finding (non-ASCII text in the literal prefix of an include pattern prunes ancestors; cannot be repaired without contradicting an existing unit test). !( ) not generated.",
      "bounded-exhaustive enumeration + proptest random generation; differential oracle against a reference glob matcher, and a conservativeness invariant; thorough tier adds a coverage-guided libFuzzer campaign (fuzz_glob, same oracles inside the target)", "DESIGN.md 4 C16")

claim("C05", "fault_enumeration",
      "For each generated scenario the complete sequence of mutating libc calls of the dedupe command is recorded under an LD_PRELOAD interposer (single rayon thread), then every position is re-executed on an identically rebuilt tree with a kill before it, a kill after it, the call (incl. the fd-based data copy, write and mode change on move targets) failing with each applicable errno (2 in quick, all in thorough) and the pair (call fails, next call fails). State-based oracle per original file (original bytes at the path / untouched other replica / complete move target / exactly one temporary sibling after a kill or double fault), an untouched replica of every content, processed-count and warning checks. Complete over positions of each explored scenario; scenarios themselves are sampled.",
      "Faults and kills happen at libc call boundaries; FICLONE success is emulated by the interposer (a model of a reflink file system, not fclones code); raw syscalls would escape the interposer (the import table shows none for file operations).",
      "fault enumeration: recorded call sequence x {kill before, kill after, errno, double fault} on proptest-generated scenarios; state-based oracle", "DESIGN.md 4 C05")
claim("C07", "exploration",
      "Generated trees x group with every transform I/O mode, --no-copy, --in-place, --cache (XDG_CACHE_HOME private / unset / empty / relative), -o, link options, working directory outside or inside the scanned tree, and helper programs that read all/part/none of the input, fail, never open $OUT, or rewrite the file they are given as $IN or leave a by-product beside it (only without --no-copy, where that is fclones' private copy), read-only (0444) files in the tree, with the k-th mutating call below TMPDIR failing (ENOSPC/EIO) in a quarter of the $IN / --in-place cases, TMPDIR unusable, or an additional scanned root named fclones-data inside TMPDIR; and all five dedupe operations with --dry-run. Strict inventory equality (paths, bytes, inodes, link counts, symlink targets, mtimes, modes), zero mutating libc calls below the scanned tree in the LD_PRELOAD trace of fclones and its children, and no fclones-* leftovers in TMPDIR.",
      "Mutations observed at libc level; helpers never write to $IN so any input change is fclones' own.",
      "proptest generation; oracle = inventory equality + system-call trace invariant (LD_PRELOAD interposer)", "DESIGN.md 4 C07")

claim("C15", "fault_enumeration",
      "Read-side libc calls (stat, lstat, open, n-th read, opendir, n-th readdir, readlink, FIEMAP) of a clean `group` run are recorded per tree entry; for every entry below the roots, every recorded occurrence and every applicable errno (EACCES, EIO, ENOENT) one run is made with that call failing, plus sampled pairs, the same n-th read failing in both files of every equal-length pair (also under --skip-content-hash), repeated roots, directory listings without entry types (DT_UNKNOWN through the interposer, so that every entry is lstat-ed), transforms that read the original file themselves ($IN --no-copy), walk-time failures of the input paths themselves, and a second generator with ignore files on several levels, hidden names and symlinks. After a faulted --cache run the next fault-free run on the same cache must equal the clean run. Metamorphic oracle: report equals a clean run on the tree with the affected entry (file incl. its hard links, sub-tree, or not-yet-listed children) physically removed, in any admissible combination for tolerated metadata failures; exit 0; warning unless ENOENT; a file whose read failed is in no group.",
      "Faults are injected at libc level by path and occurrence (schedule independent). Complete over the recorded calls of each explored scenario (occurrences capped at 6-8 per function and path); scenarios are sampled.",
      "fault enumeration over recorded read-side calls on proptest-generated scenarios; metamorphic oracle (faulted run == clean run without the entry)", "DESIGN.md 4 C15")

claim("C04", "exploration",
      "Generated histories: scenario tree; `group --threads 1` paused by the LD_PRELOAD interposer at a generated open-for-read (before a file's first read, between its prefix and content reads, after all hashing); 1-3 ordinary edits (same-length rewrite - also through a symlink that is itself a group member reported with -S -, other length, append, truncate, delete, recreate, replace by dir/symlink, touch) during the pause or after `group`, aimed mostly at members of reported groups; in a fifth of the cases the report is used twice (a first link --soft / link / remove), 15 % of the reports come from `group --transform cat`; then remove/link/link --soft/move/dedupe; group and dedupe under independently drawn time zones. Oracle: every content present just before the dedupe run still exists afterwards and every processed file's current content is retained in an untouched file.",
      "Edits kept >= 30 ms away from fclones' clock reads (tick-granular kernel mtimes); pause granularity is a libc call; mtime-preserving replacement excluded by statement.",
      "proptest-generated histories with schedule control (pause points) ; oracle = inventory invariants around the dedupe run", "DESIGN.md 4 C04")
claim("C12", "exploration",
      "Generated histories of 1-6 (edits ; run) steps over files sharing long prefixes/suffixes: in-place same-length rewrites with a newer or an older mtime, copies of other files' content, append/truncate with or without mtime change, rename, delete+recreate (inode reuse on ext4, counted), hard links, SIGKILL of a running cached group, a same-length rewrite applied while a cached run is blocked by the interposer at a read-side call on that very file, creation of the key file without which the `needkey` transform fails after partial output, twin tmpfs file systems with equal inode numbers / lengths / mtimes and different bytes; a second stage with XDG_CACHE_HOME on an 8-384 KiB tmpfs that runs full while 1900-3600 hashes are stored; options change on some steps (incl. the same transform program with other arguments). After every step the cached run (cold and warm) must print byte-identical report bodies (hashes, statistics, groups) to the uncached run with the same options.",
      "Premise of the property is enforced by the harness: every content change gets a fresh mtime (1 ms logical clock forwards, or a fresh value below all earlier ones) or a different length.",
      "proptest-generated histories; differential oracle against the uncached tool", "DESIGN.md 4 C12")

claim("C09", "exploration",
      "Generated trees (nesting 0-4, metacharacter / blank / bracket / non-ASCII / dot-prefixed names, ignore files from a restricted grammar, hard links, all kinds of symlinks incl. cycles and a sub-tree on another device) x --depth, --hidden, --no-ignore, -L, -S, --min/--max, --name/--path/--exclude as globs or regexes (absolute or relative to a working directory inside the tree), -i with case-flipped patterns, --one-fs, overlapping and repeated roots as arguments or through --stdin, a user-level ignore file together with --no-ignore. `group --rf-over 0 -f json` lists every selected file; it must equal, as a set, the reference walk written from README/--help, in which pruning does not exist.",
      "Domain restrictions where the documentation does not settle the behaviour: hidden root names, both ignore files in one directory, deeper negations, ignore files or --path/--exclude together with -L. One open known finding (non-ASCII literal prefix of an include pattern).",
      "proptest generation; oracle = reference walk / selection model compared set-wise", "DESIGN.md 4 C09")

claim("C19", "exploration",
      "The real semaphore.rs is compiled against shuttle's Mutex/Condvar/Arc (import line swapped by harness/build.rs, build fails if the line is missing). Generated programs (0-2 permits, 2-4 threads x 1-3 steps of pair / owned-guard hand-off / release-only, 0-3 unsolicited notifications standing in for spurious wake-ups), deadlock-free for the abstract counting semaphore by construction, run under hundreds to thousands of random and PCT schedules each; 2-thread programs under exhaustive DFS (bounded). Oracle: holders <= permits at every acquire return, no deadlock (shuttle's detector), permit count restored at the end (white-box read of the counter while the private field exists, and black-box: all free permits can be acquired again after the join). End-to-end complement: the real binary with 128-thread pools under prlimit --nofile=80..96 and reads slowed down by the interposer must report every one of 120-150 identical files without EMFILE.",
      "Schedules are sampled except for the DFS tier of the smallest programs; shuttle's Condvar has no spurious wake-ups of its own. End-to-end complement: C13 runs the same code with size-1 pools under the OS scheduler.",
      "proptest-generated thread programs x shuttle-generated schedules (random, PCT, bounded DFS); oracle = counting-semaphore model invariants", "DESIGN.md 4 C19")

NOT_YET = "check not built yet in this round (planned: see DESIGN.md section 4); not claimed until it exists"

hooks_commits = subprocess.run(["git","-C","/repo","log","--format=%H %s"],capture_output=True,text=True).stdout.splitlines()
hook_shas = [l.split()[0] for l in hooks_commits if "verification hook" in l.lower()]

m = {
  "version": 1,
  "setup_cmd": "./setup.sh",
  "hooks": {
    "guard": "--cfg pkolaczk_fclones_verif",
    "enable": "RUSTFLAGS=\"--cfg pkolaczk_fclones_verif\" cargo build --offline --release -p fclones (done by /verif/build.sh; the harness crate sets the same flag in harness/.cargo/config.toml)",
    "baseline_off_cmd": "cd /repo && cargo test --workspace --no-fail-fast --offline",
    "source_commits": hook_shas,
    "add_only": True
  },
  "engines": [
    {"name": "fcv", "path": "/verif/harness", "serves_properties": sorted(CHECKS.keys()),
     "kind_free_text": "Rust binary: proptest TestRunner (fixed seeds, sharded over 16 workers), own enumerators, reference models, inventory snapshots; drives the real fclones binary built from /repo and links the fclones library for in-process checks"}
  ],
  "checks": [],
  "not_applicable": [],
  "notes": "Every check: ./run.sh <ID> <tier> rebuilds the fclones binary and the harness from /repo's working tree (hooks on), replays /verif/corpus/<ID>, runs the generated search with VERIF_SEED (default 0), rewrites evidence/<ID>.json. Exit 0 held / 1 VIOLATION / 2 inconclusive (build failure, watchdog). Known findings: /verif/known_findings.json."
}
for id in ids:
    if id in CHECKS:
        cat, text, note, tech, ref = CHECKS[id]
        m["checks"].append({
            "property_id": id,
            "quick_cmd": f"./run.sh {id} quick",
            "thorough_cmd": f"./run.sh {id} thorough",
            "evidence_file": f"/verif/evidence/{id}.json",
            "replay_cmd_template": f"/verif/target/harness/release/fcv replay {id} {{path}}",
            "engine": "fcv",
            "level_claimed": {"category": cat, "text": text, "design_ref": ref},
            "level_note": note,
            "technique": tech,
        })
    else:
        m["not_applicable"].append({"property_id": id, "reason": NOT_YET})
json.dump(m, open('/verif/MANIFEST.json','w'), indent=1)
print("claimed:", sorted(CHECKS.keys()))
