#!/usr/bin/env python3
"""Regenerates MANIFEST.json from the table below (keeps it valid at all times)."""
import json, subprocess
props = [json.loads(l) for l in open('/verif/properties.jsonl')]
ids = [p['id'] for p in props]

# id -> (level category, level text, note, technique, design_ref)
CHECKS = {}
def claim(id, cat, text, note, tech, ref):
    CHECKS[id] = (cat, text, note, tech, ref)

claim("C17", "exploration",
      "Bounded-exhaustive enumeration of all strings of <=3 (quick) / <=4 (thorough) symbols over the 20-symbol hostile alphabet and all short lists, plus random long strings with shrinking, through four oracles: quote->split round trip, join->split round trip, differential decoding by the real bash, and panic-freedom of split. Finds any encoding defect that manifests within the enumerated bound or the random sample; says nothing beyond it.",
      "Trusts bash on PATH as the reference decoder; arguments are non-empty and NUL-free; harness links the fclones library built from /repo with the verif cfg (re-exports only).",
      "bounded-exhaustive enumeration + proptest random generation with round-trip and differential (bash) oracles", "DESIGN.md 4 C17")

NOT_YET = "check not built yet in this round (planned: see DESIGN.md section 4); not claimed until it exists"

hooks_commits = subprocess.run(["git","-C","/repo","log","--format=%H %s"],capture_output=True,text=True).stdout.splitlines()
hook_shas = [l.split()[0] for l in hooks_commits if "verification hook" in l.lower()]

m = {
  "version": 1,
  "setup_cmd": "./setup.sh",
  "hooks": {
    "guard": "--cfg pkolaczk_fclones_verif",
    "enable": "RUSTFLAGS=\"--cfg pkolaczk_fclones_verif\" cargo build --offline --release -p fclones (done by /verif/build.sh; the harness crate sets the same flag in harness/.cargo/config.toml)",
    "baseline_off_cmd": "cd /repo && cargo test --workspace --no-fail-fast --offline",
    "source_commits": hook_shas,
    "add_only": True
  },
  "engines": [
    {"name": "fcv", "path": "/verif/harness", "serves_properties": sorted(CHECKS.keys()),
     "kind_free_text": "Rust binary: proptest TestRunner (fixed seeds, sharded over 16 workers), own enumerators, reference models, inventory snapshots; drives the real fclones binary built from /repo and links the fclones library for in-process checks"}
  ],
  "checks": [],
  "not_applicable": [],
  "notes": "Every check: ./run.sh <ID> <tier> rebuilds the fclones binary and the harness from /repo's working tree (hooks on), replays /verif/corpus/<ID>, runs the generated search with VERIF_SEED (default 0), rewrites evidence/<ID>.json. Exit 0 held / 1 VIOLATION / 2 inconclusive (build failure, watchdog). Known findings: /verif/known_findings.json."
}
for id in ids:
    if id in CHECKS:
        cat, text, note, tech, ref = CHECKS[id]
        m["checks"].append({
            "property_id": id,
            "quick_cmd": f"./run.sh {id} quick",
            "thorough_cmd": f"./run.sh {id} thorough",
            "evidence_file": f"/verif/evidence/{id}.json",
            "replay_cmd_template": f"/verif/target/harness/release/fcv replay {id} {{path}}",
            "engine": "fcv",
            "level_claimed": {"category": cat, "text": text, "design_ref": ref},
            "level_note": note,
            "technique": tech,
        })
    else:
        m["not_applicable"].append({"property_id": id, "reason": NOT_YET})
json.dump(m, open('/verif/MANIFEST.json','w'), indent=1)
print("claimed:", sorted(CHECKS.keys()))
