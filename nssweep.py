#!/usr/bin/env python3
# usage: nssweep.py <nslots> <out file> <seed:check[:tier]> ...   (seed = directory name under seeded/)
# Tries seeded changes in parallel, each in its own mount namespace slot (nsrun.sh / nsseed.sh); the real /repo is not touched.
import sys,subprocess,queue,threading,os
n=int(sys.argv[1]); out=sys.argv[2]; jobs=queue.Queue()
for j in sys.argv[3:]: jobs.put(j)
subprocess.run(['rsync','-a','--delete','/verif/seeded/','/var/tmp/ns/seeds/'],check=True)
lock=threading.Lock()
def worker(slot):
    first=True
    while True:
        try: j=jobs.get_nowait()
        except queue.Empty: return
        parts=j.split(':'); seed,chk=parts[0],parts[1]; tier=parts[2] if len(parts)>2 else 'quick'
        d=f'/var/tmp/ns/seeds/{seed}'; p=f'{d}/patch.adapted.diff'
        if not os.path.exists(p): p=f'{d}/patch.diff'
        env=dict(os.environ); env['NSRUN_REFRESH']='1' if first else '0'; first=False
        r=subprocess.run(['/verif/nsrun.sh',f's{slot}','./nsseed.sh',p,chk,tier],capture_output=True,text=True,env=env)
        line=[l for l in r.stdout.splitlines() if l.startswith('seed=') or 'PATCH-DOES-NOT' in l]
        with lock:
            with open(out,'a') as f: f.write(f"{seed} {chk} :: {(line[0] if line else 'NO-OUTPUT '+r.stdout[-300:]+r.stderr[-300:])}\n")
ts=[threading.Thread(target=worker,args=(i,)) for i in range(n)]
[t.start() for t in ts]; [t.join() for t in ts]
