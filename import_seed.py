#!/usr/bin/env python3
# usage: import_seed.py <ID> <mN> [root]  - copies a confirmed seeded change from its scratch worktree into seeded/<ID>-<mN>/
import json,sys,os,shutil
pid,m=sys.argv[1],sys.argv[2]; root=sys.argv[3] if len(sys.argv)>3 else '/var/tmp/seed3'
src=f'{root}/{pid}/OUT/{m}'; dst=f'/verif/seeded/{pid}-{m}'
os.makedirs(dst,exist_ok=True)
for f in os.listdir(src):
    if f in('patch.diff','demo.sh') or f.endswith(('.c','.py','.rs','.gdb')): shutil.copy(f'{src}/{f}',f'{dst}/{f}')
meta=json.load(open(f'{src}/meta.json'))
conf=[l.strip() for l in open(f'{src}/confirm.txt') if l.strip()]
meta.update({"origin":"written by an independent sub-agent that saw only the property text and a scratch worktree (round 3-6)",
 "confirmed_by_me":conf,
 "confirmed_how":"confirm_seed.sh in the scratch worktree: apply patch, `cargo test --workspace --no-fail-fast --offline` (176 incl. doc tests), demo.sh must exit 1 with the change and 0 without it",
 "caught_by":meta.get("caught_by",[]),"detection_cmd":"","note":meta.get("note","")})
json.dump(meta,open(f'{dst}/meta.json','w'),indent=1)
print(dst,conf)
