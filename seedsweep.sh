#!/bin/bash
# Applies every recorded seeded change to /repo in turn, runs the check(s) that should catch it (quick tier),
# reverts, and writes one line per seed to seeded/SWEEP.txt. /repo must not be touched meanwhile.
cd /verif
OUT=seeded/SWEEP.txt; : > $OUT.tmp
for d in seeded/C*-m*/; do
  k=$(basename $d)
  p=$d/patch.adapted.diff; [ -f $p ] || p=$d/patch.diff
  for chk in $(python3 -c "import json;print(' '.join(json.load(open('$d/meta.json'))['caught_by']))"); do
    line=$(./seedtest.sh $p $chk quick 2>&1 | grep -E "^seed=|PATCH-DOES-NOT-APPLY" | head -1)
    echo "$k $chk :: $line" | tee -a $OUT.tmp
  done
done
mv $OUT.tmp $OUT
