#!/usr/bin/env python3
# usage: update_seed_meta.py <sweep log>...  - records in seeded/<k>/meta.json which quick checks caught / missed each seeded
# change (latest result per (seed, check) wins) and rewrites seeded/SWEEP.txt from the given logs.
import sys,json,re,os,collections
res=collections.OrderedDict()
for f in sys.argv[1:]:
    for l in open(f):
        m=re.match(r'(\S+) (\S+) :: seed=\S+ check=\S+ tier=(\S+) exit=(\d+) secs=(\d+) (\d+) violations',l)
        if m: res[(m.group(1),m.group(2))]=(int(m.group(4)),int(m.group(6)),m.group(3))
by=collections.defaultdict(dict)
for (k,c),(rc,n,t) in res.items(): by[k][c]=(rc,n)
for k,d in by.items():
    p=f'/verif/seeded/{k}/meta.json'
    if not os.path.exists(p): continue
    m=json.load(open(p))
    m['caught_by']=sorted(c for c,(rc,n) in d.items() if rc==1)
    m['not_caught_by']=sorted(c for c,(rc,n) in d.items() if rc==0)
    pf='patch.adapted.diff' if os.path.exists(f'/verif/seeded/{k}/patch.adapted.diff') else 'patch.diff'
    m['detection_cmd']='; '.join(f'./seedtest.sh seeded/{k}/{pf} {c} quick' for c in m['caught_by'])
    json.dump(m,open(p,'w'),indent=1)
with open('/verif/seeded/SWEEP.txt','w') as f:
    for (k,c),(rc,n,t) in sorted(res.items()):
        f.write(f"{k} {c} :: tier={t} exit={rc} violations={n}\n")
print(len(res),'results;', sum(1 for k,d in by.items() if not any(rc==1 for rc,n in d.values())),'seeds caught by nothing:',[k for k,d in by.items() if not any(rc==1 for rc,n in d.values())])
