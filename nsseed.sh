#!/bin/bash
# usage (inside nsrun.sh): nsseed.sh <patch file (absolute, outside /verif)> <ID> [tier]  - apply, run check, revert; prints one line
P=$1; ID=$2; TIER=${3:-quick}
cd /repo || exit 3
git checkout -q -- . ; 
if ! git apply "$P" 2>/dev/null; then
  if ! patch -p1 -s --no-backup-if-mismatch < "$P" >/dev/null 2>&1; then echo "PATCH-DOES-NOT-APPLY $P"; git checkout -q -- .; exit 4; fi
fi
cd /verif
START=$(date +%s)
./run.sh $ID $TIER > /var/tmp/ns/log.$$ 2>&1
RC=$?
END=$(date +%s)
echo "seed=$P check=$ID tier=$TIER exit=$RC secs=$((END-START)) $(grep -c '^VIOLATION' /var/tmp/ns/log.$$) violations :: $(grep -m1 -A2 '^VIOLATION' /var/tmp/ns/log.$$ | tr '\n' ' ' | cut -c1-300)"
[ $RC -eq 2 ] && tail -5 /var/tmp/ns/log.$$
rm -f /var/tmp/ns/log.$$
cd /repo && git checkout -q -- .
exit $RC
